#!/venv/bin/python
"""Second-round prompt for a fresh sub-agent (property text only, nothing from /verif): two changes, written to
/tmp/seedout/<ID>/c and /d, each aimed at one named mechanism from the property's own anchor list.
Usage: tools/agent_prompt3.py <ID> 0 0 g,h   (free choice of mechanism)"""
import json, sys
pid, ic, idd = sys.argv[1], int(sys.argv[2]), int(sys.argv[3])
LC, LD = (sys.argv[4].split(",") if len(sys.argv) > 4 else ["c", "d"])
p = [json.loads(l) for l in open('/verif/properties.jsonl') if json.loads(l)['id'] == pid][0]
ms = p['anchors']['mechanism']
mc, md = ms[ic], ms[idd]
print(f"""You are helping to evaluate a verification effort for the Python library pyro-ppl/funsor (a term-rewriting library for named functional tensors). Your job is to play the role of a developer who introduces a realistic, subtle BUG.

Set up your own scratch git worktree of the library first:  git -C /repo worktree add --detach /tmp/wt/{pid} HEAD   (if /tmp/wt/{pid} already exists, remove it first with `git -C /repo worktree remove --force /tmp/wt/{pid}`). Work ONLY inside /tmp/wt/{pid} and /tmp/seedout/{pid}. Never modify /repo (you may only run the two `git -C /repo worktree` commands) and never read or touch /verif. To run Python against your worktree use:  cd /tmp/wt/{pid} && PYTHONPATH=/tmp/wt/{pid} /venv/bin/python your_script.py   (PYTHONPATH is required so that `import funsor` picks up your worktree and not the installed copy; verify with `print(funsor.__file__)`). The backend is numpy (call funsor.set_backend("numpy") or leave the default). There is no network. Other jobs are running on this machine: if one of your own processes hangs, kill it by its PID only - never use pkill/killall or kill processes you did not start.

THE PROPERTY (a semantic property of funsor that should always hold):

Title: {p['title']}

Statement: {p['statement']}

Quantified over: {p['quantifier']['text']}

Relevant source files: {', '.join(p['anchors']['files'])}

YOUR TASK: produce TWO DIFFERENT, independent changes to the library source (each a separate small patch against the worktree's HEAD, each touching funsor/ source files only, not tests). You choose the places yourself, anywhere in the relevant source files listed above (or in code they call): pick two DIFFERENT functions, preferably ones that a reviewer would not look at first (helpers, rarely taken branches, fast paths, caches, fallbacks, argument normalisation, interactions between two features), and do not pick the single most obvious function for this property. The two changes are called "{LC}" and "{LD}". For each change:
 1. the library still imports and the EXISTING test suite still passes with the change applied. Run at least the relevant test files, and finally the whole numpy-backend suite:  cd /tmp/wt/{pid} && /venv/bin/python -m pytest -q -p no:cacheprovider -n 4 --ignore=test/examples --ignore=test/pyro --ignore=test/pyroapi --ignore=test/torch test/    (takes several minutes; the unpatched tree gives 7670 passed, 3859 skipped, 64 xfailed, 3 xpassed - your patched tree must give the same counts, no failures);
 2. the change BREAKS the property above: there is a concrete input / sequence of operations for which the property's statement is false with the change and true without it;
 3. the breakage needs something SPECIFIC to manifest - an unusual input, a particular combination of names/sizes/shapes, a multi-step sequence of operations, a fault/exception at a particular point, or two cooperating sites that each look fine alone. It must NOT be something ordinary use would expose at once (the existing tests passing is the minimum bar; prefer bugs that a casual smoke test would also miss). It should look like a plausible developer mistake (off-by-one, wrong variable, missing case, over-eager optimisation, stale cache, swapped operands in a rarely used branch, a 'simplification' that is only valid in the common case, ...), not sabotage with magic constants.
 4. you provide a small demonstration program demo.py (plain Python, no pytest needed, exits non-zero / raises AssertionError when the property is violated and exits 0 otherwise) that FAILS with the change applied and PASSES on the unpatched worktree. Confirm both by actually running it (flip with `git diff > saved.diff; git checkout -- funsor; ...; git apply saved.diff` - never use `git stash`: the stash is shared between all worktrees of /repo and other people are working in theirs).

Deliverables, written to /tmp/seedout/{pid}/ :
  {LC}/patch.diff  {LC}/demo.py  {LC}/notes.md      (change {LC})
  {LD}/patch.diff  {LD}/demo.py  {LD}/notes.md      (change {LD})
patch.diff must be produced with `git -C /tmp/wt/{pid} diff` (so it applies with `git apply` at the repository root, paths like a/funsor/terms.py). notes.md: which part of the property it breaks, what exactly is needed for it to manifest, and the exact test-suite command you ran with its final summary line. When you are done, leave nothing behind: `git -C /repo worktree remove --force /tmp/wt/{pid}`.

In your final answer give a 10-line summary: for each change, the file/function touched, the trigger needed, and the pytest summary line you observed.""")
