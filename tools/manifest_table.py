add(
    "C17",
    "property-based testing: generated + exhaustively enumerated enter/exit/raise forests against an explicit stack model (Hypothesis, shrinking)",
    "Bounded exploration: every forest of <=2 (quick) / <=3 (thorough) interpretation blocks over 9 interpretations with an exception injected at every position is enumerated, plus thousands of Hypothesis-generated deeper forests; after every step the active interpretation (identity), the stack depth, the sub-interpretation chain and the behaviour of four probe terms are compared with an explicit list model.",
    "Trusts CPython, Hypothesis, and the single-level behaviour of each base interpretation measured at depth 1; sequential process only.",
    "DESIGN.md section 3 C17",
)
add(
    "C01",
    "property-based testing: typed AST generators (Hypothesis + seed-expanded) vs. an independent point-wise reference evaluator, exhaustive over each case's integer input space; AST shrinker",
    "Bounded exploration: thousands (quick) to >100k (thorough) generated expressions over every constructor named in the statement; each is built eagerly through the public API and compared with a ~400-line numpy/Python reference evaluator at EVERY assignment of its integer inputs (and 3 grid points per real input); completion is additionally demanded on the core fragment.",
    "Trusts CPython, numpy, Hypothesis and vf/lang.py (reference evaluator). Tolerance 1e-8+1e-6 rel. Cases whose oracle leaves an op's numeric domain are discarded and counted.",
    "DESIGN.md section 3 C01",
)
