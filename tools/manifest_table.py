add(
    "C17",
    "property-based testing: generated + exhaustively enumerated enter/exit/raise forests against an explicit stack model (Hypothesis, shrinking)",
    "Bounded exploration: every forest of <=2 (quick) / <=3 (thorough) interpretation blocks over 9 interpretations with an exception injected at every position is enumerated, plus thousands of Hypothesis-generated deeper forests; after every step the active interpretation (identity), the stack depth, the sub-interpretation chain and the behaviour of four probe terms are compared with an explicit list model. Also: context managers created earlier than they are entered, and tapes / partial interpretations entered again under another enclosing interpretation.",
    "Trusts CPython, Hypothesis, and the single-level behaviour of each base interpretation measured at depth 1; sequential process only.",
    "DESIGN.md section 3 C17",
)
add(
    "C01",
    "property-based testing: typed AST generators (Hypothesis + seed-expanded) vs. an independent point-wise reference evaluator, exhaustive over each case's integer input space; AST shrinker",
    "Bounded exploration: thousands (quick) to >100k (thorough) generated expressions over every constructor named in the statement; each is built eagerly through the public API and compared with a ~400-line numpy/Python reference evaluator at EVERY assignment of its integer inputs (and 3 grid points per real input); completion is additionally demanded on the core fragment. Also: counting reductions of comparison masks, several absent reduced variables, shared leaves (terms are DAGs), Constant wrappers and point masses (Delta) with a reference semantics.",
    "Trusts CPython, numpy, Hypothesis and vf/lang.py (reference evaluator). Tolerance 1e-8+1e-6 rel. Cases whose oracle leaves an op's numeric domain are discarded and counted.",
    "DESIGN.md section 3 C01",
)
add(
    "C04",
    "property-based testing: generated (f, substitution map[, second map]) cases with deliberately interacting names vs. the reference evaluator's simultaneous substitution; exhaustive over each case's integer input space",
    "Bounded exploration: f from the generated term language built under eager/lazy/reflect/normalize, substitution maps with numbers, index tensors (over f's own and key names), variables (fresh, colliding, swapped, diagonal), slices and expressions, applied under eager/lazy/reflect, also chained; value and inputs compared with the oracle at every point of the finite input space. Also: Slice composed with Slice, Gaussians substituted with affine-looking non-affine values, point masses and Constants as targets.",
    "Trusts vf/lang.py (oracle evaluates all values in the caller's environment first). Gaussian/Delta targets are covered by C12/C14 instead.",
    "DESIGN.md section 3 C04",
)
add(
    "C05",
    "property-based testing: generated nestings of binder constructors with adversarially coinciding names vs. a lexically scoped reference evaluator, plus the metamorphic relation 'rename every binder to a fresh name'",
    "Bounded exploration: expressions nesting Reduce/Lambda/Independent/Cat/Integrate/Approximate/Subs binders over a 2-3 name pool, built under eager/lazy/reflect/normalize and reinterpreted; inputs must equal the lexical free names (no __BOUND name ever), values must equal the lexically scoped oracle everywhere, and renaming all binders must change nothing. Also: histories (a live binder, 0-400 unrelated binders, a capturing substitution, a re-used binder name; uniqueness of the fresh-name supply) and funsor.factory terms whose fresh name re-uses a bound name; MarkovProduct binders (one data set under two assignments of pair names and two time names, lazy/reflect/eager, then a substituted value with a free variable named like the bound time variable or a step name); Scatter binders (bare reduced variables and index tensors as destinations) against a direct sum; Integrate over variables only one of its fields mentions.",
    "Trusts vf/lang.py (environment-extension semantics) and its alpha-renaming helper (cross-checked: oracle(renamed)==oracle(original) on every case through the value comparison). One open known finding (lazy Approximate) is excluded by construction.",
    "DESIGN.md section 3 C05",
)
add(
    "C03",
    "property-based testing: generated ASTs x nests of interpretation contexts x reinterpreters (differential against eager and the reference evaluator), shards run under FUNSOR_USE_TCO/FUNSOR_TYPECHECK in {0,1}",
    "Bounded exploration: every generated expression is built under a nest of 1-3 contexts from {lazy, reflect, normalize, memoize, sequential, moment_matching} (all 258 orders sampled) and reinterpreted with reinterpret/recursion_reinterpret/stack_reinterpret; the result must have the eager output domain, inputs among the expression's, and the oracle value at every point; memoize cache hits are re-derived. Also: a deterministic shared-cache history (operands created, used once and dropped between memoize blocks) and chain templates with a duplicated Stack part.",
    "Trusts vf/lang.py; FUNSOR_USE_TCO/FUNSOR_TYPECHECK are set per shard because funsor reads them at import.",
    "DESIGN.md section 3 C03",
)
add(
    "C06",
    "enumeration of the op catalogue (op x operand domains x parameters, ~7600 entries; exhaustive in the thorough tier) + property-based testing of generated ASTs against the framework's typing rule",
    "G1 runs every op that has a find_domain rule on arrays of each operand domain (rank 0-3, every axis/keepdims/index/offset/shape/equation) and compares shape, dtype class and integer range with find_domain. G2 checks on generated expressions that the reflect-built term declares exactly the predicted inputs/output, that eager evaluation keeps the output and a subset of inputs, and that tensor data has exactly the declared shape and range. G3: catalogue of eager rules on Tensor/Number operands of every dtype class - the eager result must declare what the lazy term declares and hold data of that kind and range.",
    "Trusts numpy as the reference for each op's result shape and the framework typing rule (vf/lang.py typeof). One open known finding (integer floordiv bound).",
    "DESIGN.md section 3 C06",
)
add(
    "C10",
    "property-based testing: generated transition tensors x algorithms vs. an explicit numpy left fold over time (differential vs. the naive variant for lagged models); grid enumeration (duration x segments x time-dependence) in both tiers",
    "Bounded exploration over durations 1-13, 1-3 prev->curr pairs with independently shuffled names, 0-2 batch inputs, time/batch (in)dependence, an optional free real parameter, six semirings and every num_segments for sequential/naive/mixed sequential sum-products and eager or lazily built MarkovProduct; every entry of the result is compared with the fold. sarkka_bilmes_product is compared entry-wise with its naive counterpart for all lag sets over {1,2,3}. Also: strongly negative log-potentials (partial sums far below log(tiny)) in the semirings whose product is +.",
    "Trusts numpy and the 30-line fold oracle; for lagged models the naive funsor implementation is the reference (as the property states).",
    "DESIGN.md section 3 C10",
)
add(
    "C09",
    "property-based testing: random plated factor graphs (plus structural templates) x algorithms vs. a brute-force oracle that enumerates the fully unrolled joint",
    "Bounded exploration over factor graphs with <=5 factors, <=4 variables and <=3 plates (arbitrary, also crossing, plate sets), any eliminate set, integer plate scales, optional real parameter and six semirings; sum_product, partial_sum_product in one and two calls (valid splits by closure), modified/dynamic variants with empty steps, plated einsum and naive_plated_einsum are compared entry-wise with the unrolled joint; pedantic graphs must raise ValueError. Also: late-bridge factor graphs (a factor joining three components), operands spelled plate-before-variable, sibling plates nested in a third; every structural template x every algorithm x three semirings is enumerated in the quick tier.",
    "Trusts the 50-line itertools/numpy brute force (capped at 1e5 joint assignments); integer scales only (plate replication); a raised ValueError/NotImplementedError is a decline.",
    "DESIGN.md section 3 C09",
)
add(
    "C12",
    "property-based testing: generated Gaussians (all ranks, every interleaving of batch and real inputs) and chains of pointwise operations vs. the dense quadratic form evaluated point-wise",
    "Bounded exploration over Gaussians with 1-3 real inputs (total dim <=5), 0-2 batch inputs, rank-deficient/square/over-complete factors and chains of up to 3 operations (add, subtract, substitution of numbers/batched tensors/affine expressions, integer indexing/slicing/renaming, align, Cat, compress_gaussians, lazy+reinterpret) plus all 9 constructor parametrisations; the result is compared with -1/2||xS-w||^2 at every batch index and 3 real points. Also: substituted values that only look affine (x + h(x), products of factors in one variable, non-additive reductions); every result is also evaluated at points whose integral coordinates are integer-typed arrays (metamorphic: same value as the float point).",
    "Trusts numpy and the point-wise reference evaluator; parameters are well-conditioned by construction.",
    "DESIGN.md section 3 C12",
)
add(
    "C13",
    "property-based testing: generated Gaussians/mixtures x integral operations vs. closed forms (Schur complement, log-det, Gaussian expectation) computed on dense coefficients probed from the reference evaluator",
    "Bounded exploration over full-rank/over-complete Gaussians, sums and Tensor+Gaussian mixtures in every input interleaving: marginals over any subset, log-normalisers, plate sums, mixture reductions, two-step marginalisation, Integrate against variables/quadratics/Gaussians, moment matching (mass, mean, covariance) and rank-deficient blocks (must not yield a finite number). Completion is demanded on full-rank inputs. Also: integrated blocks of exactly rank / rank+1 dimensions, signed and transformed Gaussian integrands; coincidental singularity is separated from structural deficiency by jittering the factors; one Gaussian object normalised, then renamed / sliced / indexed in an integer input and normalised again (cached factorisations).",
    "Trusts numpy.linalg on <=5x5 well-conditioned matrices and exact finite differences of quadratics (verified at an extra point per probe).",
    "DESIGN.md section 3 C13",
)
add(
    "C14",
    "property-based testing: generated Deltas and sampling scenarios with a seeded RNG vs. explicit indicator semantics, exact mass identities and dense Gaussian moments",
    "Bounded exploration of (1) Delta evaluation by substitution at every candidate value, reduction and integration against the point value (unit mass); (2) Tensor.sample over every subset of inputs with -inf entries and 0-2 particle inputs: type, support, exact mass for every batch element and particle, determinism; (3) Gaussian.sample: mass vs the closed-form marginal, determinism, and reparametrised samples recovered as an affine map of the noise with exactly the Gaussian's mean and covariance. Also: point masses inside the generated term language (several Deltas, one point a function of another's variable, reductions / Integrate over some of a Delta's variables) against the reference semantics of vf/lang.py; a Delta over several real inputs of a Gaussian (terms in any order) integrated / reduced / substituted, some inputs left free; a sample used as a measure over the sampled inputs, a superset and a subset; log-weights of very different scales along batch inputs.",
    "Trusts numpy's seeded global RNG as the only randomness of the numpy backend, the C13 dense closed forms, and Delta.terms for locating sample points.",
    "DESIGN.md section 3 C14",
)
add(
    "C08",
    "property-based testing: generated semiring expressions (7 semirings) through normalize / unfold / optimizer routes and generated einsum equations vs. the reference evaluator; metamorphic idempotence of normalize",
    "Bounded exploration: nested sums of products over <=5 names (operands renamed/indexed, reduced names missing from some or all operands, free real scalars) are evaluated via normalize+eager, unfold+eager and apply_optimizer (lazy- and normalize-built inputs) and compared with the oracle at every point; normalising twice must return the identical object; einsum, naive_einsum and naive_contract_einsum are compared with an explicit numpy fold for generated equations on three backends.",
    "Trusts vf/lang.py and numpy; data non-negative wherever max/min is paired with mul, booleans for or/and (the declared carriers).",
    "DESIGN.md section 3 C08",
)
add(
    "C11",
    "property-based testing: generated sum-product expressions (ground roots) vs. derivatives of the reference evaluator's root with respect to every leaf entry (exact multilinear differences; 5-point stencil under plates)",
    "Bounded exploration over expressions with 1-6 distinct leaf tensors over 4 names of sizes 1-3, any reduced subset, optional plates, leaves wrapped in renamings / Slices / injective index substitutions / Cat, with and without apply_optimizer, for (add,mul) and (logaddexp,add): the forward value and the adjoint of every leaf at every entry are compared with the oracle. Three open known findings are excluded by construction. Also: negative leaf entries (plate adjoints divide by the leaf).",
    "Trusts vf/lang.py; each leaf occurs once so the root is multilinear in its entries; roots are ground (all free inputs reduced) so 'the derivative of the root' is unambiguous.",
    "DESIGN.md section 3 C11",
)
add(
    "C15",
    "exhaustive enumeration of the published op tables as laws over an edge grid (booleans exhaustively) + property-based numeric cases (scalar vs 0-d vs n-d arrays, both operand orders) against numpy",
    "Every entry of UNITS, DISTRIBUTIVE_OPS, BINARY/SAFE/UNARY inverses and PRODUCT_TO_POWER (about 5000 law instances) is evaluated on scalars and 0-d arrays over its carrier; generated cases compare every unary/binary op on Python scalars, 0-d arrays and arrays of shapes ()...(3,2) with numpy, check logaddexp/logsumexp/log-space and max-plus einsum against exact limits with -inf and near-boundary operands, and that safesub/safediv/reciprocal never produce NaN.",
    "Trusts numpy ufuncs inside each op's domain; carriers follow the callers (+inf outside the log-space carrier; per-operand dynamic range below the exp underflow range for einsum).",
    "DESIGN.md section 3 C15",
)
add(
    "C18",
    "property-based testing: generated expressions of the compiler fragment x bindings; differential between compile_funsor, pickled program, exec of the printed source, trace_function and the reference evaluator",
    "Bounded exploration of 1-3 expressions (unary, non-commutative binary, matmul, getitem, output reductions with axis/keepdims, reshape, getslice, shared subexpressions, constants, real and integer inputs) built under reflect/lazy/normalize: the compiled program, its pickle round trip, the executed as_code() source and a traced ops function must all equal the oracle; missing/unexpected kwargs must raise. Also: traced functions over an integer and a float array with int and float literals of equal value (dtype compared with the function itself).",
    "Trusts vf/lang.py; compiler NotImplementedError (e.g. python slices, reductions in Contraction) and tracer errors are declines.",
    "DESIGN.md section 3 C18",
)
add(
    "C19",
    "property-based testing: generated arrays/name maps and funsors vs. explicit numpy indexing (round trip), plus metamorphic relations for align and materialize",
    "Bounded exploration: to_funsor with every placement of names over rank 0-5 arrays (real and bounded-integer, event rank 0-2) compared element-wise at every named point, to_data round trip up to size-1 batch dims and independent of the funsor's input order; align with permutations on Tensors (data == transposed array), lazy terms, Contractions and Gaussians (value at every point); Tensor.materialize of lazy index expressions against the reference evaluator. Also: Gaussians with up to four equal-sized integer inputs (permutations that are not their own inverse), one prototype materialising two expressions whose inputs re-use names with other sizes; a Variable or strided Slice substituted onto the name of another kept input (diagonal), against direct numpy indexing; Tensor.new_arange with 1-4 arguments against the lazy Slice and its materialisation; bounded-integer outputs under align.",
    "Trusts numpy indexing/transposition and vf/lang.py for lazy terms; align is exercised with permutations of all names on non-Tensor terms (as documented).",
    "DESIGN.md section 3 C19",
)
add(
    "C16",
    "exhaustive enumeration over a pool of ~150 parametric types (order axioms, differential against an independent structural model of the type language, instance membership) + enumerated/synthesised dispatch queries for every registered signature + generated register/dispatch histories on fresh registries",
    "G2 checks reflexivity, transitivity (all ~7 million triples, in both tiers), agreement with a 60-line structural model on all pairs, deep_isinstance vs the relation, and membership of every sample value in each one-step generalisation of its deep type. G1 checks for every dispatcher of the 8 dispatched interpretations and adjoint_ops that the chosen rule belongs to a matching pattern not strictly refined by a different rule's matching pattern, and that it is stable under cache clearing, reorder(), shuffled registration order and register/dispatch histories through origin and subscripted keys. Also: generated parametrisations (object / Any / general / specific in every parameter position) and variadic dispatch histories on a fresh PartialDispatcher judged by accepted-argument sets.",
    "Trusts the structural model (vf/props/c16.py model_sub) and multipledispatch's own ordering only through its observable choices.",
    "DESIGN.md section 3 C16",
)
add(
    "C07",
    "model-based (stateful) property testing: generated construct/drop/gc/pickle/copy/reinterpret/reallocate histories over a pool of term, domain and op recipes against a reference model of structural keys with arrays compared by identity",
    "Bounded exploration of 6-24 step histories plus two scenario families (a parametrised op and freshly sized domains used by a term or by find_domain and then dropped must be dead; every documented domain form and variables over them through pickle / deepcopy; every spelling of one op parametrisation - positional, defaults omitted, keywords, method API, pickle - must give the one live object): after every step two live reflect-level handles must be identical iff their structural keys are equal, constructed objects carry exactly the requested arguments (array identity, op parameters such as alternative slice spellings), pickle/copy/reinterpret under reflect return the identical object, and every term (and every Variable inside a frozenset argument) that no live handle reaches must be dead after gc.collect(). Also: rejected malformed domain requests that compare equal to valid ones; domains validated field by field.",
    "Relies on CPython reference counting + gc.collect(); identity is demanded only for constructions that do not evaluate; domains, ops and parametrised types inside recipe histories are checked for identity; reclamation of ops and domains is checked in the used-then-dropped scenario.",
    "DESIGN.md section 3 C07",
)
add(
    "C02",
    "property-based testing with a run-time rewrite recorder: every rule firing observed while generated programs run under the exact interpretations is checked against the reference evaluator (reflected left-hand side vs replacement), with rule-function coverage reported",
    "Bounded exploration: a recorder wrapped around the dispatch attribute of the eight dispatched interpretations logs each (rule, class, arguments, result); the reflected term cls(*args) and the replacement are converted to the AST language and compared on the whole integer input space x real points (closed forms for Gaussian integrals), together with inputs(replacement) <= inputs(original). The evidence lists fired and never-fired rule functions. Also: every firing is re-resolved without the dispatch cache (a rule applied outside its pattern is a violation), pairs of look-alike programs run in one process, Constant / Delta / shaped / signed-Gaussian-integrand families, and a metamorphic ground-evaluation fallback for sides without a reference meaning.",
    "Trusts vf/lang.py and the term->AST conversion (cross-checked on every program); a firing's result includes downstream interpretation of the rewritten term; constructs without a reference meaning here are undecided (counted).",
    "DESIGN.md section 3 C02",
)
add(
    "C20",
    "property-based testing with a mutation monitor: generated programs and follow-up operations run on leaf arrays produced by a hashing factory (read-only in half of the cases); held funsors are snapshotted and re-checked",
    "Bounded exploration: the mixed program driver plus 2-5 follow-up operations (align, reductions, substitution, arithmetic, to_data, sample, compile, adjoint, optimizer, indexing, rename, slice, pickle) per case; afterwards every leaf array must be bit-identical (sha1, shape, dtype, strides), every held funsor must have unchanged inputs/output/array contents, and no read-only write error may surface from funsor. Also: bijective Scatter, the block-assembly helpers and the array-level linear algebra behind Gaussians (cholesky, solves, constructors from precision / covariance) on monitored, also degenerate, matrices as follow-ups.",
    "Trusts numpy's writeable flag and sha1 of array bytes; covers the operations the driver performs (numpy backend).",
    "DESIGN.md section 3 C20",
)
