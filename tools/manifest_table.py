add(
    "C17",
    "property-based testing: generated + exhaustively enumerated enter/exit/raise forests against an explicit stack model (Hypothesis, shrinking)",
    "Bounded exploration: every forest of <=2 (quick) / <=3 (thorough) interpretation blocks over 9 interpretations with an exception injected at every position is enumerated, plus thousands of Hypothesis-generated deeper forests; after every step the active interpretation (identity), the stack depth, the sub-interpretation chain and the behaviour of four probe terms are compared with an explicit list model.",
    "Trusts CPython, Hypothesis, and the single-level behaviour of each base interpretation measured at depth 1; sequential process only.",
    "DESIGN.md section 3 C17",
)
