add(
    "C17",
    "property-based testing: generated + exhaustively enumerated enter/exit/raise forests against an explicit stack model (Hypothesis, shrinking)",
    "Bounded exploration: every forest of <=2 (quick) / <=3 (thorough) interpretation blocks over 9 interpretations with an exception injected at every position is enumerated, plus thousands of Hypothesis-generated deeper forests; after every step the active interpretation (identity), the stack depth, the sub-interpretation chain and the behaviour of four probe terms are compared with an explicit list model.",
    "Trusts CPython, Hypothesis, and the single-level behaviour of each base interpretation measured at depth 1; sequential process only.",
    "DESIGN.md section 3 C17",
)
add(
    "C01",
    "property-based testing: typed AST generators (Hypothesis + seed-expanded) vs. an independent point-wise reference evaluator, exhaustive over each case's integer input space; AST shrinker",
    "Bounded exploration: thousands (quick) to >100k (thorough) generated expressions over every constructor named in the statement; each is built eagerly through the public API and compared with a ~400-line numpy/Python reference evaluator at EVERY assignment of its integer inputs (and 3 grid points per real input); completion is additionally demanded on the core fragment.",
    "Trusts CPython, numpy, Hypothesis and vf/lang.py (reference evaluator). Tolerance 1e-8+1e-6 rel. Cases whose oracle leaves an op's numeric domain are discarded and counted.",
    "DESIGN.md section 3 C01",
)
add(
    "C04",
    "property-based testing: generated (f, substitution map[, second map]) cases with deliberately interacting names vs. the reference evaluator's simultaneous substitution; exhaustive over each case's integer input space",
    "Bounded exploration: f from the generated term language built under eager/lazy/reflect/normalize, substitution maps with numbers, index tensors (over f's own and key names), variables (fresh, colliding, swapped, diagonal), slices and expressions, applied under eager/lazy/reflect, also chained; value and inputs compared with the oracle at every point of the finite input space.",
    "Trusts vf/lang.py (oracle evaluates all values in the caller's environment first). Gaussian/Delta targets are covered by C12/C14 instead.",
    "DESIGN.md section 3 C04",
)
add(
    "C05",
    "property-based testing: generated nestings of binder constructors with adversarially coinciding names vs. a lexically scoped reference evaluator, plus the metamorphic relation 'rename every binder to a fresh name'",
    "Bounded exploration: expressions nesting Reduce/Lambda/Independent/Cat/Integrate/Approximate/Subs binders over a 2-3 name pool, built under eager/lazy/reflect/normalize and reinterpreted; inputs must equal the lexical free names (no __BOUND name ever), values must equal the lexically scoped oracle everywhere, and renaming all binders must change nothing.",
    "Trusts vf/lang.py (environment-extension semantics) and its alpha-renaming helper (cross-checked: oracle(renamed)==oracle(original) on every case through the value comparison). One open known finding (lazy Approximate) is excluded by construction.",
    "DESIGN.md section 3 C05",
)
