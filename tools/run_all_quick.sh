#!/bin/sh
# Runs every registered check's quick command on the current tree (the committed evidence must come from these runs).
cd /verif || exit 2
for id in $(/venv/bin/python -c "import json;print(' '.join(c['property_id'] for c in json.load(open('MANIFEST.json'))['checks']))"); do
  ./check $id --tier quick > out/quick-$id.log 2>&1; rc=$?
  echo "$id rc=$rc $(grep -c '^VIOLATION' out/quick-$id.log) violations; $(tail -1 out/quick-$id.log)"
done
