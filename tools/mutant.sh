#!/bin/sh
# tools/mutant.sh <patch.diff> <ID> [tier]  — apply a patch to /repo, run the check, revert.
# The patch is never committed to /repo.
P="$(realpath "$1")"; ID="$2"; TIER="${3:-quick}"
cd /repo || exit 2
if ! git diff --quiet; then echo "repo dirty"; exit 2; fi
git apply "$P" || { echo "patch does not apply"; exit 2; }
cd /verif && ./check "$ID" --tier "$TIER" > "out/mutant-$ID.log" 2>&1; RC=$?
git -C /repo checkout -- . 
grep -E "^VIOLATION|^KNOWN|^C[0-9]+ " "out/mutant-$ID.log" | head -8
echo "rc=$RC"
exit 0
