#!/venv/bin/python
"""Regenerates /verif/MANIFEST.json from the table below (run after adding a check)."""
import json
import os

ROOT = os.path.dirname(os.path.dirname(os.path.abspath(__file__)))

# id -> (technique, level text, level note, design ref)
CHECKS = {}


def add(pid, technique, text, note, ref):
    CHECKS[pid] = (technique, text, note, ref)


NOT_YET = {}

exec(open(os.path.join(ROOT, "tools", "manifest_table.py")).read())

props = [json.loads(l) for l in open(os.path.join(ROOT, "properties.jsonl"))]
checks = []
na = []
for p in props:
    pid = p["id"]
    if pid in CHECKS:
        technique, text, note, ref = CHECKS[pid]
        checks.append(
            dict(
                property_id=pid,
                quick_cmd=f"./check {pid} --tier quick",
                thorough_cmd=f"./check {pid} --tier thorough",
                evidence_file=f"evidence/{pid}.json",
                replay_cmd_template=f"./check {pid} --replay {{path}}",
                engine="vf",
                level_claimed=dict(category="exploration", text=text, design_ref=ref),
                level_note=note,
                technique=technique,
            )
        )
    else:
        na.append(dict(property_id=pid, reason=NOT_YET.get(pid, "check not built yet in this framework (planned in DESIGN.md section 3); nothing is claimed for it")))

manifest = dict(
    version=1,
    setup_cmd="/venv/bin/python -c 'import hypothesis' 2>/dev/null || /venv/bin/pip install --no-index --find-links /opt/veriftools/wheels hypothesis; /venv/bin/python -m compileall -q vf",
    hooks=dict(
        guard="FUNSOR_VERIF",
        enable="none needed: instrumentation (dispatch recorder, mutation monitor) is installed at run time by the harness; funsor is imported from /repo's working tree (editable install)",
        baseline_off_cmd="cd /repo && /venv/bin/python -m pytest -ra -q -p no:cacheprovider --timeout=900 --continue-on-collection-errors",
        source_commits=[],
        add_only=True,
    ),
    engines=[
        dict(
            name="vf",
            path="vf/",
            serves_properties=sorted(CHECKS),
            kind_free_text="Hypothesis-driven generated-input search (16 fresh worker processes, seed = VERIF_SEED*1000+shard) plus bounded exhaustive enumeration, against independent reference oracles; collect-then-shrink per violation bucket; JSON replay files",
        )
    ],
    checks=checks,
    not_applicable=na,
    notes="All checks: exit 0 held / exit 1 with VIOLATION line / exit 2 harness error. Known findings: known_findings.json. Regressions replayed first: regressions/<ID>/*.json.",
)
with open(os.path.join(ROOT, "MANIFEST.json"), "w") as f:
    json.dump(manifest, f, indent=1)
print("checks:", [c["property_id"] for c in checks], "not_applicable:", [n["property_id"] for n in na])
