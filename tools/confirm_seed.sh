#!/bin/sh
# tools/confirm_seed.sh <PROP> <a|b>  — confirm a sub-agent's seeded change in a scratch worktree:
# patch applies on /repo HEAD, demo fails with it and passes without it, pinned suite still passes with it.
# Result is written to /verif/seeded/<PROP>-<ab>/ (patch.diff, demo.py, notes.md, confirm.json).
ID="$1"; AB="$2"; SRC="/tmp/seedout/$ID/$AB"; WT="/tmp/cs/$ID$AB"; DST="/verif/seeded/$ID-$AB"
mkdir -p /tmp/cs "$DST"
git -C /repo worktree remove --force "$WT" >/dev/null 2>&1
git -C /repo worktree add --detach "$WT" HEAD -q || exit 2
cd "$WT" || exit 2
PYTHONPATH="$WT" /venv/bin/python "$SRC/demo.py" >/tmp/cs/$ID$AB.clean.log 2>&1; CLEAN=$?
if git apply "$SRC/patch.diff"; then APPLIES=0; else APPLIES=1; fi
PYTHONPATH="$WT" /venv/bin/python "$SRC/demo.py" >/tmp/cs/$ID$AB.patched.log 2>&1; PATCHED=$?
SUITE=$(/venv/bin/python -m pytest -q -p no:cacheprovider -n ${NPROC:-8} --ignore=test/examples --ignore=test/pyro --ignore=test/pyroapi --ignore=test/torch test/ 2>&1 | tail -1)
cp "$SRC/patch.diff" "$SRC/demo.py" "$SRC/notes.md" "$DST/" 2>/dev/null
cat > "$DST/confirm.json" <<EOF
{"property": "$ID", "variant": "$AB", "repo_head": "$(git -C /repo rev-parse --short HEAD)", "patch_applies": $APPLIES, "demo_exit_clean_tree": $CLEAN, "demo_exit_patched_tree": $PATCHED, "suite_with_patch": "$SUITE"}
EOF
cd /; git -C /repo worktree remove --force "$WT"
cat "$DST/confirm.json"
