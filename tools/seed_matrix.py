#!/venv/bin/python
"""For every confirmed seeded change under /verif/seeded/<ID>-<ab>/: apply it to a working tree of funsor, run the
quick check of its property (and of the related properties given on the command line), undo it, and record
the outcome in meta.json.  By default the tree is /repo itself (apply, check, `git checkout -- .`); with
SEED_MATRIX_WORKTREE=<dir> a scratch worktree of /repo HEAD is created there, used through VERIF_REPO and removed.
Usage: tools/seed_matrix.py [SEED_DIR ...] [--also C02,C20]"""
import json
import os
import re
import subprocess
import sys

ROOT = "/verif"
TREE = os.environ.get("SEED_MATRIX_WORKTREE") or "/repo"
ENV = "VERIF_NO_SHRINK=1 VERIF_EVIDENCE_DIR=/verif/out/evidence-sensitivity " + ("" if TREE == "/repo" else f"VERIF_REPO={TREE} ")
also = []
args = [a for a in sys.argv[1:]]
vseeds = ["1"]
if "--verif-seeds" in args:
    i = args.index("--verif-seeds")
    vseeds = args[i + 1].split(",")
    args = args[:i] + args[i + 2:]
if "--also" in args:
    i = args.index("--also")
    also = args[i + 1].split(",")
    args = args[:i] + args[i + 2:]
dirs = args or sorted(os.path.join(ROOT, "seeded", d) for d in os.listdir(os.path.join(ROOT, "seeded")))


def sh(cmd, **kw):
    return subprocess.run(cmd, shell=True, capture_output=True, text=True, **kw)


if TREE != "/repo":
    sh(f"git -C /repo worktree remove --force {TREE}")
    if sh(f"git -C /repo worktree add --detach {TREE} HEAD").returncode != 0:
        print("cannot create worktree", TREE)
        sys.exit(2)


for d in dirs:
    d = os.path.abspath(d.rstrip("/"))
    name = os.path.basename(d)
    pid = name.split("-")[0]
    patch = os.path.join(d, "patch.diff")
    if not os.path.exists(patch):
        continue
    if sh(f"git -C {TREE} diff --quiet").returncode != 0:
        print("tree dirty; abort")
        sys.exit(2)
    if sh(f"git -C {TREE} apply {patch}").returncode != 0:
        print(name, "patch does not apply to the current head")
        continue
    results = {}
    try:
        for chk in [pid] + [a for a in also if a != pid]:
            runs = []
            for vs in vseeds:
                r = sh(f"cd {ROOT} && VERIF_SEED={vs} {ENV}./check {chk} --tier quick")
                lines = [l for l in r.stdout.splitlines() if l.startswith("VIOLATION") or l.startswith("  ")]
                runs.append(dict(exit=r.returncode, violations=sum(1 for l in r.stdout.splitlines() if l.startswith("VIOLATION")), first=(lines[1].strip()[:300] if len(lines) > 1 else "")))
            best = max(runs, key=lambda x: x["exit"] == 1)
            results[chk] = dict(exit=1 if all(x["exit"] == 1 for x in runs) else (0 if any(x["exit"] == 0 for x in runs) else 2), violations=best["violations"], first=best["first"],
                                verif_seeds=",".join(vseeds), detected_runs=f"{sum(1 for x in runs if x['exit'] == 1)}/{len(runs)}")
    finally:
        sh(f"git -C {TREE} checkout -- .")
    confirm = {}
    cp = os.path.join(d, "confirm.json")
    if os.path.exists(cp):
        confirm = json.load(open(cp))
    notes = open(os.path.join(d, "notes.md")).read() if os.path.exists(os.path.join(d, "notes.md")) else ""
    meta_path = os.path.join(d, "meta.json")
    old = json.load(open(meta_path)) if os.path.exists(meta_path) else {}
    checks = dict(old.get("checks", {}))
    checks.update(results)
    meta = dict(
        property=pid,
        seed=name,
        origin="independent sub-agent given only the property text and a scratch worktree" + (" (patch re-applied by hand to the current head, see notes.md)" if "NOTE (verifier)" in notes else ""),
        breaks=old.get("breaks") or re.sub(r"\s+", " ", notes.strip())[:600],
        needs_to_manifest=old.get("needs_to_manifest") or "see notes.md (trigger section)",
        confirmed=dict(
            how="tools/confirm_seed.sh: scratch worktree of /repo HEAD; demo.py run on the clean tree and on the patched tree; pinned numpy-backend suite run on the patched tree",
            **{k: confirm.get(k) for k in ("repo_head", "patch_applies", "demo_exit_clean_tree", "demo_exit_patched_tree", "suite_with_patch")},
        ),
        checks=checks,
        detected_by=sorted(k for k, v in checks.items() if v["exit"] == 1),
        ran="git -C /repo apply patch.diff; ./check <ID> --tier quick; git -C /repo checkout -- .",
    )
    json.dump(meta, open(meta_path, "w"), indent=1)
    print(name, {k: (v["exit"], v.get("detected_runs")) for k, v in results.items()})

if TREE != "/repo":
    sh(f"git -C /repo worktree remove --force {TREE}")
