import warnings; warnings.simplefilter('ignore')
import numpy as np, funsor, itertools, collections
from collections import OrderedDict
from funsor import ops, Tensor, Variable, Number, Bint, Real, Reals
import funsor.integrate, funsor.joint, funsor.constant, funsor.sum_product, funsor.adjoint, funsor.optimizer
from funsor.interpretations import eager_base, normalize_base, lazy_base, sequential_base, moment_matching_base, reflect, lazy, normalize, sequential
from funsor.optimizer import unfold_base, optimize_base, apply_optimizer
from funsor.interpreter import reinterpret
funsor.set_backend("numpy")
LOG = []; ACTIVE = [True]
def install(interp):
    orig = interp.dispatch
    def dispatch(cls, *args):
        fn = orig(cls, *args)
        if not ACTIVE[0]: return fn
        def rule(*a):
            r = fn(*a)
            if r is not None:
                LOG.append((interp.__name__, getattr(fn, '__name__', repr(fn)), fn, cls, a, r))
            return r
        return rule
    interp.dispatch = dispatch
    return orig
bases = dict(eager=eager_base, normalize=normalize_base, lazy=lazy_base, sequential=sequential_base, mm=moment_matching_base, unfold=unfold_base, optimize=optimize_base)
origs = {k: install(v) for k, v in bases.items()}
rng = np.random.RandomState(0)
a = Tensor(rng.rand(2,3), OrderedDict(i=Bint[2], j=Bint[3])); b = Tensor(rng.rand(3), OrderedDict(j=Bint[3]))
r = (a*b).reduce(ops.add, 'j') + a(i=0).reduce(ops.max, 'j')
with lazy: e = (a * b).reduce(ops.add, 'j') * Variable('x', Real)
r2 = apply_optimizer(e)
with sequential: r3 = (a*b + Variable('x', Real)).reduce(ops.add, 'j')
c = collections.Counter((l[0], l[1], l[3].__name__) for l in LOG)
for k, v in sorted(c.items()): print(k, v)
print(len(LOG))
# identity check example
ACTIVE[0] = False
for name, fname, fn, cls, args, res in LOG[:3]:
    with reflect: lhs = cls(*args)
    print(name, fname, type(lhs).__name__, '->', type(res).__name__, res is lhs)
