import numpy as np, funsor
from collections import OrderedDict
from funsor import ops, Tensor, Variable, Number, Bint, Real, Reals
from funsor.terms import Stack, Cat, Slice, Lambda, Independent, Reduce, Subs, Binary, Unary
funsor.set_backend("numpy")
def show(name, f):
    try:
        r = f()
        print(name, '->', type(r).__name__, dict(getattr(r,'inputs',{})), getattr(r,'output',None), getattr(r,'data',None) if hasattr(r,'data') and np.size(r.data)<20 else '')
    except Exception as e:
        print(name, 'RAISED', type(e).__name__, str(e)[:150])

x = Tensor(np.arange(6.).reshape(2,3), OrderedDict(i=Bint[2], j=Bint[3]))
y = Tensor(np.arange(4.).reshape(2,2), OrderedDict(i=Bint[2], k=Bint[2]))
# renaming onto existing input
show("y(i='k')", lambda: y(i='k'))
show("y(k='i')", lambda: y(k='i'))
show("y(i='k',k='i')", lambda: y(i='k', k='i'))
show("y(i=0,k='i')", lambda: y(i=0, k='i'))
show("y(k='i', i=0)", lambda: y(k='i', i=0))
show("y(i='a',k='a')", lambda: y(i='a', k='a'))
# reduce var not in arg
v = Variable('z', Bint[3])
show("x.reduce(add,{z})", lambda: x.reduce(ops.add, frozenset({v})))
show("x.reduce(logaddexp,{z})", lambda: x.reduce(ops.logaddexp, frozenset({v})))
show("x.reduce(max,{z})", lambda: x.reduce(ops.max, frozenset({v})))
show("x.reduce(mul,{z})", lambda: x.reduce(ops.mul, frozenset({v})))
show("x.reduce(min,{z})", lambda: x.reduce(ops.min, frozenset({v})))
xs = Tensor(np.array([1.,2.]), OrderedDict(i=Bint[2]))
show("xs.reduce(add,{z, i})", lambda: xs.reduce(ops.add, frozenset({v, Variable('i',Bint[2])})))
# sum axis lazy
X = Variable('X', Reals[2,3])
show("X.sum(0)", lambda: X.sum(0))
show("X.sum(0) subs", lambda: X.sum(0)(X=np.ones((2,3))))
show("X.sum(0,keepdims)", lambda: X.sum(0, True))
# floordiv
a = Tensor(np.array([3,2,1,0]), OrderedDict(i=Bint[4]), 4)
b = Tensor(np.array([1,2]), OrderedDict(k=Bint[2]), 3)
show("a//b", lambda: a // b)
show("a%b", lambda: a % b)
print(ops.UNITS[ops.and_], ops.UNITS[ops.or_])
