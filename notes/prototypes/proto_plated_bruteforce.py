import warnings; warnings.simplefilter('ignore')
import numpy as np, funsor, itertools, random, collections, sys
from collections import OrderedDict
from funsor import ops, Tensor, Variable, Number, Bint, Real
from funsor.sum_product import sum_product, partial_sum_product, modified_partial_sum_product, dynamic_partial_sum_product
funsor.set_backend("numpy")
SEMI = {'addmul': (ops.add, ops.mul, np.add, np.multiply), 'lse': (ops.logaddexp, ops.add, np.logaddexp, np.add),
        'maxadd': (ops.max, ops.add, np.maximum, np.add), 'minadd': (ops.min, ops.add, np.minimum, np.add), 'maxmul': (ops.max, ops.mul, np.maximum, np.multiply)}
def brute(factors, sizes, plates, eliminate, nsum, nprod):
    """factors: list of (names tuple, ndarray). plates: set of names. eliminate: set of names (vars and plates).
    Returns (names_out, table) of result over kept names."""
    elim_pl = plates & eliminate
    allnames = sorted(set(n for f in factors for n in f[0]))
    vars_ = [n for n in allnames if n not in plates]
    # ordinal of var = intersection over factors mentioning it of (elim plates in factor)
    ordv = {}
    for names, _ in factors:
        o = frozenset(n for n in names if n in elim_pl)
        for v in names:
            if v not in plates: ordv[v] = ordv.get(v, o) & o
    kept_pl = [n for n in allnames if n in plates and n not in elim_pl]
    kept_vars = [v for v in vars_ if v not in eliminate]
    for v in kept_vars:
        if ordv[v]: return None  # kept var inside eliminated plate: excluded
    # a factor must contain... replicate: var copies indexed by assignments of its ordinal plates
    out_names = kept_pl + kept_vars
    out = np.zeros([sizes[n] for n in out_names])
    elim_vars = [v for v in vars_ if v in eliminate]
    copies = []  # (var, plate-index-tuple)
    for v in elim_vars:
        pls = sorted(ordv[v])
        for idx in itertools.product(*[range(sizes[p]) for p in pls]):
            copies.append((v, tuple(zip(pls, idx))))
    for oidx in itertools.product(*[range(sizes[n]) for n in out_names]):
        fixed = dict(zip(out_names, oidx))
        acc = None
        for cvals in itertools.product(*[range(sizes[v]) for v, _ in copies]):
            cv = dict(zip(copies, cvals))
            prod = None
            for names, data in factors:
                fpl = [n for n in names if n in elim_pl]
                for pidx in itertools.product(*[range(sizes[p]) for p in fpl]):
                    pa = dict(zip(fpl, pidx))
                    ix = []
                    for n in names:
                        if n in elim_pl: ix.append(pa[n])
                        elif n in fixed: ix.append(fixed[n])
                        else:
                            key = (n, tuple((p, pa[p]) for p in sorted(ordv[n])))
                            ix.append(cv[key])
                    val = data[tuple(ix)]
                    prod = val if prod is None else nprod(prod, val)
            acc = prod if acc is None else nsum(acc, prod)
        out[oidx] = acc
    return out_names, out
def run(seed, N):
    rng = random.Random(seed); nr = np.random.RandomState(seed)
    st = collections.Counter()
    for it in range(N):
        nv, npl = rng.randint(1, 3), rng.randint(0, 2)
        vs = ['a','b','c'][:nv]; pls = ['i','j'][:npl]
        sizes = {n: rng.randint(1, 2) if n in vs else rng.randint(1, 3) for n in vs + pls}
        nf = rng.randint(1, 4)
        factors = []
        for _ in range(nf):
            names = [n for n in vs + pls if rng.random() < 0.5]
            rng.shuffle(names)
            if not names: names = [rng.choice(vs)]
            factors.append((tuple(names), nr.uniform(0.5, 1.5, size=[sizes[n] for n in names])))
        present = set(n for f in factors for n in f[0])
        elim = frozenset(n for n in present if rng.random() < 0.7)
        sname = rng.choice(list(SEMI)); sop, pop, nsum, nprod = SEMI[sname]
        exp = brute(factors, sizes, set(pls), set(elim), nsum, nprod)
        if exp is None: st['excluded'] += 1; continue
        fs = [Tensor(d, OrderedDict((n, Bint[sizes[n]]) for n in names)) for names, d in factors]
        try:
            got = sum_product(sop, pop, fs, elim, frozenset(pls))
        except Exception as e:
            st['raise:' + type(e).__name__ + ':' + str(e)[:30]] += 1; continue
        names, table = exp
        if not isinstance(got, (Tensor, Number)): st['lazy'] += 1; continue
        if isinstance(got, Number): g = np.asarray(got.data)
        else:
            if set(got.inputs) != set(names):
                # allow missing inputs if table constant... just flag
                st['inputs-differ'] += 1; print('INPUTS', factors and [f[0] for f in factors], elim, pls, dict(got.inputs), names); continue
            g = got.align(tuple(names)).data
        if np.allclose(g, table): st['ok'] += 1
        else:
            st['WRONG'] += 1; print('WRONG', sname, [f[0] for f in factors], sizes, sorted(elim), pls)
    print(dict(st))
run(int(sys.argv[1]), int(sys.argv[2]))
