import warnings; warnings.simplefilter('ignore')
import numpy as np, funsor, itertools, random, collections, sys
from collections import OrderedDict
from funsor import ops, Tensor, Variable, Number, Bint, Real, Reals
from funsor.gaussian import Gaussian
from funsor.terms import Funsor
funsor.set_backend("numpy")
seed = int(sys.argv[1]); N = int(sys.argv[2])
rng = random.Random(seed); nr = np.random.RandomState(seed)
REALS = {'x': (), 'y': (2,), 'z': (2, 2)}; INTS = {'i': 2, 'j': 3}
def rand_inputs():
    names = rng.sample(list(REALS), rng.randint(1, 3)) + rng.sample(list(INTS), rng.randint(0, 2))
    rng.shuffle(names)
    return OrderedDict((n, Reals[REALS[n]] if n in REALS else Bint[INTS[n]]) for n in names)
def mk(inputs):
    batch = tuple(d.size for d in inputs.values() if d.dtype != 'real')
    dim = sum(d.num_elements for d in inputs.values() if d.dtype == 'real')
    rank = rng.randint(0, 2 * dim + 1)
    return Gaussian(nr.randn(*batch, rank), nr.randn(*batch, dim, rank) / np.sqrt(max(rank, 1)), inputs)
def evalG(g, pt):
    """oracle: evaluate funsor expr that is Gaussian or Contraction(Tensor + Gaussian) via dense formula"""
    if isinstance(g, Gaussian):
        ints = [k for k, d in g.inputs.items() if d.dtype != 'real']
        idx = tuple(pt[k] for k in ints)
        w, S = g.white_vec[idx], g.prec_sqrt[idx]
        x = np.concatenate([np.asarray(pt[k], dtype=float).reshape(-1) for k, d in g.inputs.items() if d.dtype == 'real'])
        return -0.5 * ((x @ S - w) ** 2).sum()
    if isinstance(g, Tensor):
        return g.data[tuple(pt[k] for k in g.inputs)]
    if isinstance(g, Number): return g.data
    return sum(evalG(t, pt) for t in g.terms)
def point(inputs):
    return {k: (rng.randrange(d.size) if d.dtype != 'real' else nr.randn(*d.shape)) for k, d in inputs.items()}
def feval(f, pt):
    r = f(**{k: (v if isinstance(v, int) else np.asarray(v)) for k, v in pt.items() if k in f.inputs})
    return r
st = collections.Counter()
for it in range(N):
    g1 = mk(rand_inputs()); g2 = mk(rand_inputs())
    op = rng.choice(['add', 'subs_real', 'index', 'rename', 'align', 'tensoridx', 'eval'])
    try:
        allin = OrderedDict(g1.inputs); 
        if op == 'add':
            allin.update(g2.inputs); res = g1 + g2
            oracle = lambda pt: evalG(g1, pt) + evalG(g2, pt)
        elif op == 'subs_real':
            ks = [k for k, d in g1.inputs.items() if d.dtype == 'real']; ks = rng.sample(ks, rng.randint(1, len(ks)))
            vals = {k: nr.randn(*g1.inputs[k].shape) for k in ks}
            res = g1(**vals); oracle = lambda pt: evalG(g1, {**pt, **vals})
        elif op == 'index':
            ks = [k for k, d in g1.inputs.items() if d.dtype != 'real']
            if not ks: continue
            k = rng.choice(ks); v = rng.randrange(g1.inputs[k].size)
            res = g1(**{k: v}); oracle = lambda pt: evalG(g1, {**pt, k: v})
        elif op == 'tensoridx':
            ks = [k for k, d in g1.inputs.items() if d.dtype != 'real']
            if not ks: continue
            k = rng.choice(ks); n = g1.inputs[k].size
            idx = Tensor(nr.randint(0, n, size=(3,)), OrderedDict(q=Bint[3]), n)
            allin['q'] = Bint[3]
            res = g1(**{k: idx}); oracle = lambda pt: evalG(g1, {**pt, k: int(idx.data[pt['q']])})
        elif op == 'rename':
            k = rng.choice(list(g1.inputs)); res = g1(**{k: k + '2'})
            allin = OrderedDict((kk + '2' if kk == k else kk, d) for kk, d in g1.inputs.items())
            oracle = lambda pt: evalG(g1, {**pt, k: pt[k + '2']})
        elif op == 'align':
            names = list(g1.inputs); rng.shuffle(names); res = g1.align(tuple(names))
            if tuple(res.inputs) != tuple(names): st['ALIGN-ORDER'] += 1
            oracle = lambda pt: evalG(g1, pt)
        else:
            res = g1; oracle = lambda pt: evalG(g1, pt)
        ok = True
        for _ in range(3):
            pt = point(allin)
            r = feval(res, pt)
            if not isinstance(r, (Tensor, Number)): st[op + ':lazy'] += 1; ok = None; break
            if not np.allclose(r.data, oracle(pt), rtol=1e-6, atol=1e-8): ok = False
        if ok is True: st[op + ':ok'] += 1
        elif ok is False: st[op + ':WRONG'] += 1; print('WRONG', op, dict(g1.inputs), g1.prec_sqrt.shape if isinstance(g1, Gaussian) else type(g1).__name__)
    except Exception as e:
        st[op + ':raise:' + type(e).__name__] += 1
        if st[op + ':raise:' + type(e).__name__] <= 1: print('RAISE', op, type(e).__name__, str(e)[:100], dict(g1.inputs))
print(dict(sorted(st.items())))
