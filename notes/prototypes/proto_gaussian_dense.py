import warnings; warnings.simplefilter('ignore')
import numpy as np, funsor
from collections import OrderedDict
from funsor import ops, Tensor, Variable, Number, Bint, Real, Reals
from funsor.gaussian import Gaussian
from funsor.integrate import Integrate
from funsor.interpretations import moment_matching
funsor.set_backend("numpy")
rng = np.random.RandomState(0)
def dense(g):
    S, w = g.prec_sqrt, g.white_vec
    return S @ np.swapaxes(S,-1,-2), (S @ w[...,None])[...,0], -0.5*(w**2).sum(-1)
def lognorm(P, eta, c):
    d = P.shape[-1]
    return 0.5*d*np.log(2*np.pi) - 0.5*np.linalg.slogdet(P)[1] + 0.5*np.einsum('...i,...ij,...j->...', eta, np.linalg.inv(P), eta) + c
for rank in [3, 4, 7]:
    g = Gaussian(rng.randn(2, rank), rng.randn(2, 3, rank), OrderedDict(i=Bint[2], x=Reals[2], y=Real))
    gg = g if isinstance(g, Gaussian) else g.terms[1]
    P, eta, c = dense(gg)
    extra = 0 if isinstance(g, Gaussian) else g.terms[0].data
    got = g.reduce(ops.logaddexp, frozenset({'x','y'}))
    print(rank, type(g).__name__, got.data, lognorm(P, eta, c) + extra)
    # marginalize y only, evaluate at x
    m = g.reduce(ops.logaddexp, 'y')
    xv = rng.randn(2)
    got = m(x=xv).data
    Pxx, Pxy, Pyy = P[:, :2, :2], P[:, :2, 2:], P[:, 2:, 2:]
    ex, ey = eta[:, :2], eta[:, 2:]
    # integrate over y: quadratic in y: -1/2 y Pyy y + y (ey - Pyx x) + [ -1/2 x Pxx x + x ex + c ]
    e2 = ey - np.einsum('bij,i->bj', Pxy, xv)
    c2 = -0.5*np.einsum('i,bij,j->b', xv, Pxx, xv) + ex @ xv + c
    print('   marg', got, lognorm(Pyy, e2, c2) + extra)
# mixture reduce + moment matching mass
t = Tensor(rng.randn(2), OrderedDict(i=Bint[2]))
g = Gaussian(rng.randn(2, 3), rng.randn(2, 3, 3), OrderedDict(i=Bint[2], x=Reals[2], y=Real))
mix = t + g
exact_mass = mix.reduce(ops.logaddexp, frozenset({'x','y','i'}))
with moment_matching:
    mm = mix.reduce(ops.logaddexp, 'i')
print(type(mm).__name__, exact_mass.data, mm.reduce(ops.logaddexp, frozenset({'x','y'})).data)
# Integrate variable
r = Integrate(g, Variable('x', Reals[2]), frozenset({'x','y'}))
print(type(r).__name__, getattr(r,'data',None))
r = Integrate(Gaussian(rng.randn(2, 2), rng.randn(2, 2, 2), OrderedDict(i=Bint[2], x=Reals[2])), Variable('x', Reals[2]), 'x')
print(type(r).__name__, getattr(r,'data',None))
