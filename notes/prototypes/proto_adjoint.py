import warnings; warnings.simplefilter('ignore')
import numpy as np, funsor, itertools
from collections import OrderedDict
from funsor import ops, Tensor, Variable, Number, Bint, Real, Reals
from funsor.adjoint import adjoint, forward_backward
from funsor.interpretations import lazy, reflect
from funsor.optimizer import apply_optimizer
funsor.set_backend("numpy")
rng = np.random.RandomState(0)
S = dict(i=2,j=3,k=2)
def T(names): return Tensor(rng.rand(*[S[n] for n in names])+0.5, OrderedDict((n, Bint[S[n]]) for n in names))
a, b, c = T('ij'), T('jk'), T('k')
for sop, pop in [(ops.add, ops.mul), (ops.logaddexp, ops.add)]:
    with lazy:
        e = pop(pop(a, b), c).reduce(sop, frozenset({'j','k'}))
    fwd, bwd = forward_backward(sop, pop, e)
    print(type(fwd).__name__, fwd.data)
    for leaf in (a, b, c):
        adj = bwd[leaf]
        print('  adj', dict(adj.inputs), type(adj).__name__)
    # oracle for a: d e[i] / d a[i', j'] in linear space
    A, B, C = (a.data, b.data, c.data) if sop is ops.add else (np.exp(a.data), np.exp(b.data), np.exp(c.data))
    exp_a = np.einsum('jk,k->j', B, C)  # independent of i (adj inputs j) -- root has input i though
    got = bwd[a]
    print('  got a', got.align(tuple(sorted(got.inputs))).data if sop is ops.add else np.exp(got.align(tuple(sorted(got.inputs))).data), exp_a)
    exp_c = np.einsum('ij,jk->ik', A, B)
    got = bwd[c]; g = got.align(('i','k')).data
    print('  got c', np.allclose(g if sop is ops.add else np.exp(g), exp_c))
# optimizer variant
with lazy:
    e = (a * b * c).reduce(ops.add, frozenset({'j','k'}))
    e = apply_optimizer(e)
fwd, bwd = forward_backward(ops.add, ops.mul, e)
print(type(fwd).__name__, [type(k).__name__ for k in bwd], bwd[a])
