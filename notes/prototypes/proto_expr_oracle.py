import warnings; warnings.simplefilter('ignore')
import numpy as np, funsor, itertools, random, sys, traceback, collections
from collections import OrderedDict
from funsor import ops, Tensor, Variable, Number, Bint, Real, Reals
from funsor.terms import Stack, Cat, Slice, Lambda, Independent, Reduce, Subs, Binary, Unary, Align, Funsor
from funsor.cnf import Contraction
from funsor.interpretations import lazy, normalize, reflect, eager, sequential
from funsor.interpreter import reinterpret
funsor.set_backend("numpy")
SIZES = dict(a=2, b=3, c=2, d=3, e=1)
NPOP = {'add': np.add, 'mul': np.multiply, 'logaddexp': np.logaddexp, 'max': np.maximum, 'min': np.minimum, 'sub': np.subtract}
# ---- term-level evaluator
def ev(t, env):
    if isinstance(t, Variable): return env[t.name]
    if isinstance(t, Number): return np.asarray(t.data)
    if isinstance(t, Tensor):
        idx = tuple(int(env[k]) for k in t.inputs)
        return np.asarray(t.data[idx])
    if isinstance(t, Binary):
        if isinstance(t.op, ops.GetitemOp):
            return ev(t.lhs, env)[(slice(None),)*t.op.defaults['offset'] + (int(ev(t.rhs, env)),)]
        return NPOP[t.op.name](ev(t.lhs, env), ev(t.rhs, env))
    if isinstance(t, Unary):
        if t.op is ops.neg: return -ev(t.arg, env)
        if t.op is ops.exp: return np.exp(ev(t.arg, env))
        raise NotImplementedError(t.op)
    if isinstance(t, Reduce):
        names = [(v.name, v.output.size) for v in t.reduced_vars]
        vals = []
        for idx in itertools.product(*[range(s) for _, s in names]):
            e2 = dict(env); e2.update({n: i for (n, _), i in zip(names, idx)})
            vals.append(ev(t.arg, e2))
        return NPOP[t.op.name].reduce(np.stack(vals), axis=0)
    if isinstance(t, Contraction):
        names = [(v.name, v.output.size) for v in t.reduced_vars]
        vals = []
        for idx in itertools.product(*[range(s) for _, s in names]):
            e2 = dict(env); e2.update({n: i for (n, _), i in zip(names, idx)})
            terms = [ev(x, e2) for x in t.terms]
            r = terms[0]
            for x in terms[1:]: r = NPOP[t.bin_op.name](r, x)
            vals.append(r)
        if t.red_op is ops.null: return vals[0]
        return NPOP[t.red_op.name].reduce(np.stack(vals), axis=0)
    if isinstance(t, Subs):
        e2 = dict(env)
        for k, v in t.subs.items(): e2[k] = ev(v, env)
        return ev(t.arg, e2)
    if isinstance(t, Stack):
        return ev(t.parts[int(env[t.name])], env)
    if isinstance(t, Cat):
        n = int(env[t.name])
        for p in t.parts:
            s = p.inputs[t.part_name].size
            if n < s:
                e2 = dict(env); e2[t.part_name] = n; return ev(p, e2)
            n -= s
        raise AssertionError
    if isinstance(t, Slice):
        return np.asarray(t.slice.start + t.slice.step * int(env[t.name]))
    if isinstance(t, Lambda):
        out = []
        for i in range(t.var.output.size):
            e2 = dict(env); e2[t.var.name] = i; out.append(ev(t.expr, e2))
        return np.stack(out)
    if isinstance(t, Align): return ev(t.arg, env)
    raise NotImplementedError(type(t).__name__)
def table(t):
    names = list(t.inputs)
    out = {}
    for idx in itertools.product(*[range(t.inputs[n].size) for n in names]):
        out[idx] = ev(t, dict(zip(names, idx)))
    return names, out
def ftable(f, names, inputs):
    out = {}
    for idx in itertools.product(*[range(inputs[n].size) for n in names]):
        r = f(**{n: i for n, i in zip(names, idx) if n in f.inputs})
        if not isinstance(r, (Tensor, Number)): return None
        out[idx] = np.asarray(r.data)
    return out
# ---- generator (builds under current interpretation)
def gen(rng, depth, ctx):
    # ctx: list of names available
    k = rng.random()
    if depth == 0 or k < 0.2:
        names = [n for n in ctx if rng.random() < 0.5]
        rng.shuffle(names)
        if not names and rng.random() < 0.3: return ('num', round(rng.uniform(0.5, 2), 2))
        shape = [SIZES[n] for n in names]
        data = np.round(RNG.uniform(0.5, 2.0, size=shape), 2)
        return ('tensor', tuple(names), data)
    ch = rng.choice(['bin', 'bin', 'reduce', 'reduce', 'rename', 'subsnum', 'stack', 'cat', 'lamget', 'slice'])
    if ch == 'bin':
        return ('bin', rng.choice(['add', 'mul', 'max', 'logaddexp', 'sub']), gen(rng, depth-1, ctx), gen(rng, depth-1, ctx))
    if ch == 'reduce':
        vs = [n for n in ctx if rng.random() < 0.4] or [rng.choice(ctx)]
        return ('reduce', rng.choice(['add', 'mul', 'max', 'min', 'logaddexp']), gen(rng, depth-1, ctx), tuple(vs))
    if ch == 'rename':
        a, b = rng.sample(ctx, 2)
        if SIZES[a] != SIZES[b]: return gen(rng, depth, ctx)
        return ('rename', gen(rng, depth-1, ctx), a, b)
    if ch == 'subsnum':
        a = rng.choice(ctx); return ('subsnum', gen(rng, depth-1, ctx), a, rng.randrange(SIZES[a]))
    if ch == 'stack':
        a = rng.choice(ctx); rest = [n for n in ctx if n != a]
        return ('stack', a, tuple(gen(rng, depth-1, rest) for _ in range(SIZES[a])))
    if ch == 'cat':
        a = rng.choice([n for n in ctx if SIZES[n] >= 2]); 
        return ('cat', a, gen(rng, depth-1, ctx), gen(rng, depth-1, ctx))
    if ch == 'lamget':
        a, b = rng.sample(ctx, 2)
        if SIZES[a] != SIZES[b]: return gen(rng, depth, ctx)
        return ('lamget', gen(rng, depth-1, ctx), a, b)
    if ch == 'slice':
        a = rng.choice(ctx)
        return ('slice', gen(rng, depth-1, ctx), a)
OPS = {'add': ops.add, 'mul': ops.mul, 'max': ops.max, 'min': ops.min, 'logaddexp': ops.logaddexp, 'sub': ops.sub}
def build(ast):
    k = ast[0]
    if k == 'num': return Number(ast[1])
    if k == 'tensor': return Tensor(ast[2], OrderedDict((n, Bint[SIZES[n]]) for n in ast[1]))
    if k == 'bin': return OPS[ast[1]](build(ast[2]), build(ast[3]))
    if k == 'reduce':
        x = build(ast[2]); return x.reduce(OPS[ast[1]], frozenset(Variable(n, Bint[SIZES[n]]) for n in ast[3]))
    if k == 'rename': return build(ast[1])(**{ast[2]: ast[3]})
    if k == 'subsnum': return build(ast[1])(**{ast[2]: ast[3]})
    if k == 'stack': return Stack(ast[1], tuple(build(p) for p in ast[2]))
    if k == 'cat':
        # cat of two halves along a: x(a=Slice) pieces
        x, y = build(ast[2]), build(ast[3]); a = ast[1]; n = SIZES[a]
        if a not in x.inputs or a not in y.inputs: return x + y
        return Cat(a, (x(**{a: Slice(a, 0, 1, 1, n)}), y(**{a: Slice(a, 1, n, 1, n)})))
    if k == 'lamget':
        x = build(ast[1]); a, b = ast[2], ast[3]
        return Lambda(Variable(a, Bint[SIZES[a]]), x)[Variable(b, Bint[SIZES[b]])]
    if k == 'slice':
        x = build(ast[1]); a = ast[2]; n = SIZES[a]
        if a not in x.inputs: return x
        return x(**{a: Slice(a, 0, n, 1, n)})
seed = int(sys.argv[1]); N = int(sys.argv[2])
rng = random.Random(seed); RNG = np.random.RandomState(seed)
stats = collections.Counter(); examples = {}
for it in range(N):
    ast = gen(rng, rng.choice([1,2,3]), list(SIZES))
    try:
        with reflect: lz = build(ast)
    except Exception as e:
        stats['lazybuild:'+type(e).__name__] += 1; examples.setdefault('lazybuild:'+type(e).__name__, (ast, str(e)[:100])); continue
    try:
        names, oracle = table(lz)
    except Exception as e:
        stats['oracle:'+type(e).__name__] += 1; examples.setdefault('oracle:'+type(e).__name__, (ast, repr(e)[:100])); continue
    for mode in ['eager', 'lazy_reinterp', 'normalize_reinterp']:
        try:
            if mode == 'eager': r = build(ast)
            elif mode == 'lazy_reinterp':
                with lazy: z = build(ast)
                r = reinterpret(z)
            else:
                with normalize: z = build(ast)
                r = reinterpret(z)
        except Exception as e:
            key = mode+':'+type(e).__name__; stats[key] += 1; examples.setdefault(key, (ast, str(e)[:100])); continue
        if not set(r.inputs) <= set(lz.inputs):
            stats[mode+':EXTRA_INPUTS'] += 1; examples.setdefault(mode+':EXTRA_INPUTS', ast); continue
        ft = ftable(r, names, lz.inputs)
        if ft is None: stats[mode+':lazyresult'] += 1; examples.setdefault(mode+':lazyresult', ast); continue
        ok = all(np.shape(ft[i]) == np.shape(oracle[i]) and np.allclose(ft[i], oracle[i], rtol=1e-6, atol=1e-9, equal_nan=True) for i in oracle)
        stats[mode+(':ok' if ok else ':WRONG')] += 1
        if not ok: examples.setdefault(mode+':WRONG', ast)
for k, v in sorted(stats.items()): print(k, v)
for k, v in examples.items():
    if 'ok' not in k: print(k, '::', v)
