import numpy as np, funsor, itertools
from collections import OrderedDict
from funsor import ops, Tensor, Variable, Number, Bint, Real, Reals
from funsor.sum_product import *
from funsor.terms import Slice
funsor.set_backend("numpy")
rng = np.random.RandomState(0)
def T(names, S):
    return Tensor(rng.rand(*[S[n] for n in names])+0.1, OrderedDict((n, Bint[S[n]]) for n in names))
SEMI = [(ops.add, ops.mul), (ops.logaddexp, ops.add), (ops.max, ops.add), (ops.min, ops.add), (ops.max, ops.mul)]
def np_sum(sop): return {ops.add: np.add, ops.logaddexp: np.logaddexp, ops.max: np.maximum, ops.min: np.minimum}[sop]
def np_prod(pop): return {ops.mul: np.multiply, ops.add: np.add}[pop]
def fold(sop, pop, trans, T_, n):  # trans[t, prev, curr]
    r = trans[0]
    for t in range(1, T_):
        nxt = trans[t]
        # r[p, c] = sum_m r[p,m] * nxt[m,c]
        tmp = np_prod(pop)(r[:, :, None], nxt[None, :, :])
        r = np_sum(sop).reduce(tmp, axis=1)
    return r
bad = 0
for dur in range(1, 9):
    for (sop, pop) in SEMI:
        S = dict(t=dur, p=2, c=2)
        tr = T('tpc', S)
        exp = fold(sop, pop, tr.data, dur, 2)
        for name, fn in [('seq', lambda: sequential_sum_product(sop, pop, tr, Variable('t', Bint[dur]), {'p':'c'})),
                         ('naive', lambda: naive_sequential_sum_product(sop, pop, tr, Variable('t', Bint[dur]), {'p':'c'})),
                         ('markov', lambda: MarkovProduct(sop, pop, tr, 't', {'p':'c'}))] + [
                         ('mixed%d'%k, (lambda k: lambda: mixed_sequential_sum_product(sop, pop, tr, Variable('t', Bint[dur]), {'p':'c'}, num_segments=k))(k)) for k in range(1, dur+1)]:
            try:
                got = fn()
                got = got.align(('p','c'))
                if not np.allclose(got.data, exp):
                    bad += 1; print('MISMATCH', dur, sop, pop, name)
            except Exception as e:
                print('RAISED', dur, sop, pop, name, type(e).__name__, str(e)[:80])
print('bad', bad)
# time-independent trans
tr = T('pc', dict(p=2,c=2))
for dur in [1,2,3,4]:
    for name, fn in [('seq', lambda: sequential_sum_product(ops.add, ops.mul, tr, Variable('t', Bint[dur]), {'p':'c'})),
                     ('naive', lambda: naive_sequential_sum_product(ops.add, ops.mul, tr, Variable('t', Bint[dur]), {'p':'c'})),
                     ('markov', lambda: MarkovProduct(ops.add, ops.mul, tr, Variable('t', Bint[dur]), {'p':'c'}))]:
        try:
            got = fn().align(('p','c')); exp = np.linalg.matrix_power(tr.data, dur)
            print(dur, name, np.allclose(got.data, exp))
        except Exception as e:
            print('RAISED', dur, name, type(e).__name__, str(e)[:80])
