"""Expression language (AST), framework typing rule, point-wise reference
evaluator (the oracle), and builder into funsor through the public API.

AST nodes are nested tuples (JSON lists in replay files).  A *domain* is
``(dtype, shape)`` with dtype "real" or an int size.

    ("num", v, dtype)
    ("ten", ((name,size),...), shape, dtype, flat_data, is_bool)
    ("var", name, dom)
    ("un", op, x)
    ("unp", op, params, x)          reductions/reshape/getslice on the output shape
    ("bin", op, x, y)
    ("getitem", offset, x, idx)
    ("red", op, x, ((name,size),...))
    ("sub", x, ((name, value),...))  value: node | ("pynum", v) | ("pyname", n) | ("pyslice", start, stop, step)
    ("stack", name, parts)
    ("cat", name, parts, part_name)
    ("slice", name, start, stop, step, dtype)
    ("lam", name, size, x)
    ("indep", x, reals_var, bint_var, diag_var)
    ("einsum", eqn, xs)
    ("fstack", dim, xs) / ("fcat", axis, xs)
    ("align", names, x)
    ("const", ((name, size | ("real", shape)), ...), x)   Constant: x, declared constant in further inputs
    ("delta", ((name, point, log_density), ...))           Delta: log_density where every name equals its point, else -inf
    ("integrate", log_measure, integrand, ((name,size),...))
    ("approx", op, model, guide, ((name,size),...))

The oracle uses only Python loops and numpy on small arrays; it never calls
funsor.
"""
import itertools
import math

import numpy as np

from vf.core import HarnessError

REAL = ("real", ())


def is_real(dom):
    return dom[0] == "real"


# --------------------------------------------------------------- op tables
def _sigmoid(x):
    return 1.0 / (1.0 + np.exp(-x))


NP_UNARY = {
    "neg": np.negative,
    "abs": np.abs,
    "exp": np.exp,
    "log": np.log,
    "sqrt": np.sqrt,
    "log1p": np.log1p,
    "sigmoid": _sigmoid,
    "tanh": np.tanh,
    "atanh": np.arctanh,
    "reciprocal": lambda x: 1.0 / x,
    "pos": lambda x: +x,
    "invert": np.logical_not,
}

NP_BINARY = {
    "add": np.add,
    "sub": np.subtract,
    "mul": np.multiply,
    "truediv": np.true_divide,
    "floordiv": np.floor_divide,
    "mod": np.mod,
    "pow": np.power,
    "max": np.maximum,
    "min": np.minimum,
    "logaddexp": np.logaddexp,
    "and": np.logical_and,
    "or": np.logical_or,
    "xor": np.logical_xor,
    "eq": np.equal,
    "ne": np.not_equal,
    "lt": np.less,
    "le": np.less_equal,
    "gt": np.greater,
    "ge": np.greater_equal,
}
COMPARISONS = ("eq", "ne", "lt", "le", "gt", "ge")
LOGICAL = ("and", "or", "xor")
ASSOC = ("add", "mul", "max", "min", "logaddexp", "and", "or", "xor")
REDUCE_OPS = ("add", "mul", "max", "min", "logaddexp", "and", "or")


def _logsumexp(x, axis=None, keepdims=False):
    x = np.asarray(x, dtype=float)
    m = np.max(x, axis=axis, keepdims=True)
    m = np.where(np.isfinite(m), m, 0.0)
    r = np.log(np.sum(np.exp(x - m), axis=axis, keepdims=True)) + m
    if not keepdims:
        r = np.squeeze(r, axis=axis) if axis is not None else r.reshape(())
    return r


NP_REDUCTION = {
    "sum": np.sum,
    "prod": np.prod,
    "amax": np.max,
    "amin": np.min,
    "logsumexp": _logsumexp,
    "mean": np.mean,
    "std": np.std,
    "var": np.var,
    "all": np.all,
    "any": np.any,
}


def fold(op, vals):
    r = vals[0]
    f = NP_BINARY[op]
    for v in vals[1:]:
        r = f(r, v)
    return r


# --------------------------------------------------------------- typing rule
def broadcast_shape(*shapes):
    n = max((len(s) for s in shapes), default=0)
    out = []
    for i in range(1, n + 1):
        d = 1
        for s in shapes:
            if len(s) >= i:
                k = s[-i]
                if k != 1:
                    if d != 1 and d != k:
                        raise HarnessError(f"shapes {shapes} do not broadcast")
                    d = k
        out.append(d)
    return tuple(reversed(out))


def _merge(*inputs):
    out = {}
    for inp in inputs:
        for k, d in inp.items():
            if k in out and out[k] != d:
                raise HarnessError(f"name {k} with domains {out[k]} and {d}")
            out[k] = d
    return out


def parse_index(index, shape):
    """index: tuple of ("i",n)|("s",start,stop,step)|("n",)|("e",) -> python index"""
    out = []
    for it in index:
        if it[0] == "i":
            out.append(int(it[1]))
        elif it[0] == "s":
            out.append(slice(it[1], it[2], it[3]))
        elif it[0] == "n":
            out.append(None)
        elif it[0] == "e":
            out.append(Ellipsis)
    return tuple(out)


_type_cache = {}


def typeof(node):
    """(inputs: dict name -> dom, output dom).  Cached by node identity."""
    key = id(node)
    hit = _type_cache.get(key)
    if hit is not None and hit[0] is node:
        return hit[1]
    r = _typeof(node)
    if len(_type_cache) > 200000:
        _type_cache.clear()
    _type_cache[key] = (node, r)
    return r


def bin_dtype(op, l, r):
    """Framework typing rule for the dtype of a binary op; None = outside the rule."""
    if op in COMPARISONS:
        return 2
    if op == "matmul":
        return "real" if l == "real" and r == "real" else None
    if l == "real" or r == "real":
        if op in ASSOC:
            return "real"
        return "real" if l == r else None
    if op in ("add", "mul", "max", "min"):
        f = {"add": lambda a, b: a + b, "mul": lambda a, b: a * b, "max": max, "min": min}[op]
        return f(l - 1, r - 1) + 1
    if op in LOGICAL:
        return 2
    if op == "mod":
        return max(0, r - 1)
    if op == "floordiv":
        return l  # a // b <= a for divisors >= 1 (tight bound; funsor may declare more)
    return None


def matmul_shape(ls, rs):
    if len(rs) == 1:
        return ls[:-1]
    if len(ls) == 1:
        return rs[:-2] + rs[-1:]
    return broadcast_shape(ls[:-2], rs[:-2]) + (ls[-2], rs[-1])


def _typeof(node):
    k = node[0]
    if k == "num":
        return {}, (node[2], ())
    if k == "ten":
        return {n: (s, ()) for n, s in node[1]}, (node[3], tuple(node[2]))
    if k == "var":
        return {node[1]: (node[2][0], tuple(node[2][1]))}, (node[2][0], tuple(node[2][1]))
    if k == "gauss":
        inp = {n: (s_, ()) for n, s_ in node[1]}
        inp.update({n: ("real", tuple(sh)) for n, sh in node[2]})
        return inp, ("real", ())
    if k == "un":
        inp, (dt, sh) = typeof(node[2])
        if node[1] in ("exp", "log"):
            dt = "real"
        return inp, (dt, sh)
    if k == "unp":
        op, params, x = node[1], node[2], node[3]
        inp, (dt, sh) = typeof(x)
        if op in NP_REDUCTION:
            axis, keepdims = params
            dummy = np.zeros(sh)
            ax = tuple(axis) if isinstance(axis, (tuple, list)) else axis
            out = np.sum(dummy, axis=ax, keepdims=bool(keepdims))
            if op in ("all", "any"):
                dt = 2
            return inp, (dt, out.shape)
        if op == "reshape":
            return inp, (dt, tuple(params))
        if op == "getslice":
            dummy = np.zeros(sh)
            return inp, (dt, dummy[parse_index(params, sh)].shape)
        raise HarnessError(op)
    if k == "bin":
        op = node[1]
        li, (ld, ls) = typeof(node[2])
        ri, (rd, rs) = typeof(node[3])
        dt = bin_dtype(op, ld, rd)
        if dt is None:
            raise HarnessError(f"binary {op} on {ld},{rd}")
        sh = matmul_shape(ls, rs) if op == "matmul" else broadcast_shape(ls, rs)
        return _merge(li, ri), (dt, sh)
    if k == "getitem":
        off = node[1]
        li, (ld, ls) = typeof(node[2])
        ri, (rd, rs) = typeof(node[3])
        if rs != () or rd != ls[off]:
            raise HarnessError(f"getitem index {rd},{rs} into {ls} at {off}")
        return _merge(li, ri), (ld, ls[:off] + ls[off + 1 :])
    if k == "red":
        inp, out = typeof(node[2])
        names = {n for n, s in node[3]}
        for n, s in node[3]:
            if n in inp and inp[n] != _vdom(s):
                raise HarnessError(f"reduced var {n}:{s} vs {inp[n]}")
        return {n: d for n, d in inp.items() if n not in names}, out
    if k == "sub":
        inp, out = typeof(node[1])
        res = {n: d for n, d in inp.items() if n not in dict(node[2])}
        vins = []
        for name, v in node[2]:
            if name not in inp:
                continue  # ignored by funsor
            vi, vo = typeof_value(v, inp[name])
            if vo != inp[name]:
                raise HarnessError(f"sub {name}: value {vo} for input {inp[name]}")
            vins.append(vi)
        return _merge(res, *vins), out
    if k == "stack":
        name, parts = node[1], node[2]
        ts = [typeof(p) for p in parts]
        outs = {t[1] for t in ts}
        if len(outs) != 1 or any(name in t[0] for t in ts):
            raise HarnessError("stack")
        return _merge({name: (len(parts), ())}, *[t[0] for t in ts]), ts[0][1]
    if k == "cat":
        name, parts, pn = node[1], node[2], node[3]
        ts = [typeof(p) for p in parts]
        if len({t[1] for t in ts}) != 1 or any(pn not in t[0] for t in ts):
            raise HarnessError("cat")
        if pn != name and any(name in t[0] for t in ts):
            raise HarnessError("cat name")
        total = sum(t[0][pn][0] for t in ts)
        rest = [{n: d for n, d in t[0].items() if n != pn} for t in ts]
        return _merge({name: (total, ())}, *rest), ts[0][1]
    if k == "slice":
        _, name, start, stop, step, dtype = node
        stop = min(dtype, max(start, stop))
        size = max(0, (stop + step - 1 - start) // step)
        return {name: (size, ())}, (dtype, ())
    if k == "lam":
        _, name, size, x = node
        inp, (dt, sh) = typeof(x)
        if name in inp and inp[name] != (size, ()):
            raise HarnessError("lam")
        return {n: d for n, d in inp.items() if n != name}, (dt, (size,) + sh)
    if k == "indep":
        _, x, rv, bv, dv = node
        inp, out = typeof(x)
        if bv not in inp or dv not in inp or rv in {n for n in inp if n not in (bv, dv)}:
            raise HarnessError("indep")
        res = {n: d for n, d in inp.items() if n not in (bv, dv)}
        res[rv] = (inp[dv][0], (inp[bv][0],) + inp[dv][1])
        return res, out
    if k == "einsum":
        eqn, xs = node[1], node[2]
        ts = [typeof(x) for x in xs]
        ins, out = eqn.split("->")
        sizes = {}
        for spec, t in zip(ins.split(","), ts):
            for c, s in zip(spec, t[1][1]):
                sizes[c] = s
        return _merge(*[t[0] for t in ts]), ("real", tuple(sizes[c] for c in out))
    if k in ("fstack", "fcat"):
        ts = [typeof(x) for x in node[2]]
        arrs = [np.zeros(t[1][1]) for t in ts]
        if k == "fstack":
            sh = broadcast_shape(*[t[1][1] for t in ts])
            dim = node[1]
            if dim >= 0:
                dim = dim - len(sh) - 1
            split = dim + len(sh) + 1
            shape = sh[:split] + (len(ts),) + sh[split:]
        else:
            shape = np.concatenate(arrs, axis=node[1]).shape
        return _merge(*[t[0] for t in ts]), (ts[0][1][0], tuple(shape))
    if k == "align":
        return typeof(node[2])
    if k == "delta":
        res, names = {}, {}
        for name, point, ld in node[1]:
            pi, po = typeof(point)
            li, lo = typeof(ld)
            if lo != ("real", ()) or name in names:
                raise HarnessError("delta term")
            names[name] = po
            res = _merge(res, pi, li)
        if set(names) & set(res) or not names:
            raise HarnessError("delta name among the inputs of its points")
        res = dict(res)
        res.update(names)
        return res, ("real", ())
    if k == "const":
        inp, out = typeof(node[2])
        res = {n: _vdom(s_) for n, s_ in node[1]}
        if set(res) & set(inp) or len(res) != len(node[1]) or not res:
            raise HarnessError("const inputs must be new names")
        res.update(inp)
        return res, out
    if k == "integrate":
        _, lm, ig, vs = node
        li, lo = typeof(lm)
        ii, io = typeof(ig)
        names = {n for n, s in vs}
        return {n: d for n, d in _merge(li, ii).items() if n not in names}, io
    if k == "approx":
        _, op, model, guide, vs = node
        mi, mo = typeof(model)
        gi, go = typeof(guide)
        return _merge(mi, gi), mo
    raise HarnessError(f"unknown node {k}")


def _vdom(s):
    """domain of a bound variable spec: int size, or ("real", shape)."""
    if isinstance(s, (tuple, list)):
        return ("real", tuple(s[1]))
    return (s, ())


def typeof_value(v, dom):
    """Type of a substitution value given the domain of the input it replaces."""
    k = v[0]
    if k == "pynum":
        return {}, dom
    if k == "pyname":
        return {v[1]: dom}, dom
    if k == "pyslice":
        size = len(range(*slice(v[1], v[2], v[3]).indices(dom[0])))
        # a python slice becomes Lambda(i, Slice(...)): an array-valued index -> not a scalar value
        raise HarnessError("pyslice is not a scalar substitution value")
    return typeof(v)


def free_inputs(node):
    return typeof(node)[0]


# --------------------------------------------------------------- the oracle
class Undecided(Exception):
    """No closed form for this reduction over a real variable: neither pass nor violation."""


class NotNormalizable(Exception):
    """The integrated block carries too little information: funsor must raise, not return a number."""


def gauss_value(node, env):
    """-1/2 || x S - w ||^2 with x the concatenation of the real inputs in declaration order."""
    _, ints, reals, order, rank, wflat, sflat = node[:7]
    bshape = tuple(s_ for n, s_ in ints)
    D = sum(int(np.prod(sh)) if sh else 1 for n, sh in reals)
    w = np.asarray(wflat, dtype=float).reshape(bshape + (rank,))
    S = np.asarray(sflat, dtype=float).reshape(bshape + (D, rank))
    idx = tuple(int(env[n]) for n, s_ in ints)
    x = np.concatenate([np.asarray(env[n], dtype=float).reshape(-1) for n, sh in reals]) if reals else np.zeros(0)
    r = x @ S[idx] - w[idx]
    return -0.5 * float(r @ r)


class OutOfDomain(Exception):
    """The expression applies an op outside its numeric domain at this point
    (division by zero, log/sqrt of a negative, ...): the case is discarded."""


def _check_domain_un(op, x):
    x = np.asarray(x, dtype=float)
    if op == "log" and (x < 0).any():
        raise OutOfDomain(op)
    if op == "sqrt" and (x < 0).any():
        raise OutOfDomain(op)
    if op == "log1p" and (x < -1).any():
        raise OutOfDomain(op)
    if op == "atanh" and (np.abs(x) >= 1).any():
        raise OutOfDomain(op)
    if op == "reciprocal" and (x == 0).any():
        raise OutOfDomain(op)
    if np.isinf(x).any() and op in ("reciprocal", "sigmoid", "tanh"):
        pass


def _check_domain_bin(op, a, b):
    if op in ("add", "sub", "floordiv", "mod", "pow", "truediv") and np.asarray(a).dtype == bool and np.asarray(b).dtype == bool:
        # numpy defines + on two boolean arrays as logical or (and refuses -); the same Bint[2] values held as
        # integers add to 2, so the result depends on the representation, not on the term
        raise OutOfDomain("arithmetic on two boolean arrays")
    if op in ("truediv", "floordiv", "mod") and (np.asarray(b) == 0).any():
        raise OutOfDomain(op)
    if op == "logaddexp" and ((np.asarray(a, dtype=float) == np.inf).any() or (np.asarray(b, dtype=float) == np.inf).any()):
        raise OutOfDomain("logaddexp(+inf): outside the log-space carrier")
    if op == "pow":
        a = np.asarray(a, dtype=float)
        b = np.asarray(b, dtype=float)
        if ((a < 0) & (b != np.round(b))).any() or ((a == 0) & (b < 0)).any():
            raise OutOfDomain(op)
    if op in ("sub", "add", "mul", "truediv"):
        a = np.asarray(a, dtype=float)
        b = np.asarray(b, dtype=float)
        if np.isinf(a).any() or np.isinf(b).any():
            with np.errstate(all="ignore"):
                r = NP_BINARY[op](a, b)
            if np.isnan(r).any():
                raise OutOfDomain(op + " of infinities")


def _is_zero(node):
    return (node[0] == "num" and node[1] == 0) or (node[0] == "ten" and all(v == 0 for v in node[4]))


def check_int_deltas(body, names):
    """Reductions over integer names on which the body carries a Delta: decided only for unit-mass addends."""
    found = [t for d in walk(body) if d[0] == "delta" for t in d[1] if t[0] in names]
    if not found:
        return
    add = [t for t in additive_deltas(body) if t[0] in names]
    if len(add) != len(found) or len({t[0] for t in found}) != len(found):
        raise Undecided("Delta on a reduced variable is not an addend of the body")
    if not all(_is_zero(t[2]) for t in add):
        raise Undecided("non-unit Delta under a reduction")


def additive_deltas(body):
    """Delta terms that are addends of `body` (through add, the left side of sub, align and Constant wrappers)."""
    k = body[0]
    if k == "delta":
        return list(body[1])
    if k == "bin" and body[1] == "add":
        return additive_deltas(body[2]) + additive_deltas(body[3])
    if k == "bin" and body[1] == "sub":
        return additive_deltas(body[2])
    if k in ("align", "const"):
        return additive_deltas(body[2])
    return []


class Oracle:
    """Point-wise evaluator with memoisation on (node, env restricted to its free names)."""

    def __init__(self):
        self.memo = {}

    def ev(self, node, env):
        inp = typeof(node)[0]
        try:
            key = (id(node),) + tuple(
                (n, env[n] if not isinstance(env[n], np.ndarray) else env[n].tobytes()) for n in sorted(inp)
            )
        except KeyError as e:
            raise HarnessError(f"env lacks {e} for {node[0]}")
        hit = self.memo.get(key)
        if hit is not None:
            return hit[1]
        r = self._ev(node, env)
        self.memo[key] = (node, r)
        return r

    def _ev(self, node, env):
        k = node[0]
        ev = self.ev
        if k == "num":
            return np.asarray(float(node[1]) if node[2] == "real" else int(node[1]))
        if k == "ten":
            names = node[1]
            sizes = tuple(s for n, s in names)
            shape = tuple(node[2])
            dt = float if node[3] == "real" else (bool if (len(node) > 5 and node[5]) else np.int64)
            arr = np.asarray(node[4], dtype=dt).reshape(sizes + shape)
            return arr[tuple(int(env[n]) for n, s in names)]
        if k == "var":
            v = env[node[1]]
            return np.asarray(v)
        if k == "gauss":
            return np.asarray(gauss_value(node, env))
        if k == "un":
            x = ev(node[2], env)
            x = x.astype(bool) if node[1] == "invert" else np.asarray(x, dtype=float)
            _check_domain_un(node[1], x)
            return np.asarray(NP_UNARY[node[1]](x))
        if k == "unp":
            op, params, xn = node[1], node[2], node[3]
            x = ev(xn, env)
            if op in NP_REDUCTION:
                axis, keepdims = params
                ax = tuple(axis) if isinstance(axis, (tuple, list)) else axis
                if x.ndim == 0:
                    # funsor applies output reductions to scalars as reductions over a singleton
                    x1 = x.reshape((1,))
                    return np.asarray(NP_REDUCTION[op](x1, axis=-1))
                return np.asarray(NP_REDUCTION[op](x, axis=ax, keepdims=bool(keepdims)))
            if op == "reshape":
                return x.reshape(tuple(params))
            if op == "getslice":
                return x[parse_index(params, x.shape)]
        if k == "bin":
            a = ev(node[2], env)
            b = ev(node[3], env)
            if node[1] == "matmul":
                if np.isinf(a).any() or np.isinf(b).any():
                    raise OutOfDomain("matmul of infinities (order-dependent)")
                return np.matmul(a, b)
            if node[1] == "sub" and any(d[0] == "delta" for d in walk(node[3])):
                raise OutOfDomain("subtracting a point mass")
            if node[1] in ("add", "sub"):
                # Delta + f is rewritten to Delta + f(name=point): f must be inside its domain at the point as well
                terms_ = additive_deltas(node)
                if len({t[0] for t in terms_}) != len(terms_):
                    raise OutOfDomain("two point masses on one variable")
                for name, point, ld in terms_:
                    if name in env and set(typeof(point)[0]) <= set(env):
                        p = np.asarray(ev(point, env))
                        q = np.asarray(env[name])
                        if p.shape == q.shape and not np.array_equal(p.astype(float), q.astype(float)):
                            at = np.asarray(ev(node, dict(env, **{name: p})), dtype=float)
                            if np.isnan(at).any():
                                raise OutOfDomain("the other addends are undefined at the Delta's point")
            _check_domain_bin(node[1], a, b)
            return np.asarray(NP_BINARY[node[1]](a, b))
        if k == "getitem":
            x = ev(node[2], env)
            i = int(ev(node[3], env))
            return x[(slice(None),) * node[1] + (i,)]
        if k == "red" and any(isinstance(s_, (tuple, list)) for n, s_ in node[3]):
            return self._red_real(node, env)
        if k == "integrate" and any(isinstance(s_, (tuple, list)) for n, s_ in node[3]):
            return self._integrate_real(node, env)
        if k == "red":
            op = node[1]
            vs = node[3]
            check_int_deltas(node[2], {n for n, s_ in vs})
            vals = []
            for idx in itertools.product(*[range(s) for n, s in vs]):
                e2 = dict(env)
                e2.update({n: i for (n, s), i in zip(vs, idx)})
                vals.append(ev(node[2], e2))
                if op in ("max", "min"):
                    self._check_maxmin_carrier(node[2], e2)
            if op in ("and", "or"):
                vals = [np.asarray(v).astype(bool) for v in vals]
            elif op in ("add", "mul") and any(np.asarray(v).dtype == bool for v in vals):
                vals = [np.asarray(v).astype(np.int64) if np.asarray(v).dtype == bool else v for v in vals]  # np.sum / np.prod count
            elif op == "logaddexp":
                if any((np.asarray(v, dtype=float) == np.inf).any() for v in vals):
                    raise OutOfDomain("logaddexp(+inf)")
            return np.asarray(fold(op, vals))
        if k == "sub":
            inp = typeof(node[1])[0]
            e2 = dict(env)
            delta_names = {t[0] for d in walk(node[1]) if d[0] == "delta" for t in d[1]}
            for name, v in node[2]:
                if name not in inp:
                    continue
                if name in delta_names and isinstance(v, tuple) and v and v[0] == "un":
                    # funsor reads Delta(x = p)(x = T(y)) for an invertible transform T as a change of variables (a point
                    # mass over y at T^-1(p), with the log-Jacobian), not as the log-density evaluated at T(y)
                    raise OutOfDomain("a Delta's variable substituted by a transformed variable (change of variables)")
                e2[name] = self.ev_value(v, env, inp[name])
            return ev(node[1], e2)
        if k == "stack":
            return ev(node[2][int(env[node[1]])], env)
        if k == "cat":
            name, parts, pn = node[1], node[2], node[3]
            n = int(env[name])
            for p in parts:
                s = typeof(p)[0][pn][0]
                if n < s:
                    e2 = dict(env)
                    e2[pn] = n
                    return ev(p, e2)
                n -= s
            raise HarnessError("cat index out of range")
        if k == "slice":
            return np.asarray(node[2] + node[4] * int(env[node[1]]))
        if k == "lam":
            _, name, size, x = node
            out = []
            for i in range(size):
                e2 = dict(env)
                e2[name] = i
                out.append(ev(x, e2))
            return np.stack(out)
        if k == "indep":
            _, x, rv, bv, dv = node
            n = typeof(x)[0][bv][0]
            big = np.asarray(env[rv])
            total = None
            for i in range(n):
                e2 = dict(env)
                e2[bv] = i
                e2[dv] = big[i]
                v = ev(x, e2)
                total = v if total is None else total + v
            return np.asarray(total)
        if k == "einsum":
            if any(np.isinf(np.asarray(ev(x, env), dtype=float)).any() for x in node[2]):
                raise OutOfDomain("einsum of infinities (order-dependent)")
            return np.einsum(node[1], *[np.asarray(ev(x, env), dtype=float) for x in node[2]])
        if k == "fstack":
            vals = [ev(x, env) for x in node[2]]
            sh = broadcast_shape(*[v.shape for v in vals])
            vals = [np.broadcast_to(v, sh) for v in vals]
            dim = node[1]
            if dim >= 0:
                dim = dim - len(sh) - 1
            return np.stack(vals, axis=dim)
        if k == "fcat":
            vals = [ev(x, env) for x in node[2]]
            return np.concatenate(vals, axis=node[1])
        if k == "align":
            return ev(node[2], env)
        if k == "const":
            return ev(node[2], env)
        if k == "delta":
            total = 0.0
            for name, point, ld in node[1]:
                p = np.asarray(ev(point, env))
                q = np.asarray(env[name])
                l = float(ev(ld, env))
                if p.shape != q.shape or not np.array_equal(p.astype(float), q.astype(float)):
                    return np.asarray(-np.inf)
                total += l
            return np.asarray(total)
        if k == "integrate":
            _, lm, ig, vs = node
            check_int_deltas(lm, {n for n, s_ in vs})
            if any(d[0] == "delta" for d in walk(ig)):
                raise OutOfDomain("a Delta (log-density) used as an integrand")
            total = None
            for idx in itertools.product(*[range(s) for n, s in vs]):
                e2 = dict(env)
                e2.update({n: i for (n, s), i in zip(vs, idx)})
                m = np.exp(np.asarray(ev(lm, e2), dtype=float))
                v = np.where(m == 0, 0.0, m * np.where(m == 0, 0.0, np.asarray(ev(ig, e2), dtype=float)))
                total = v if total is None else total + v
            return np.asarray(total)
        if k == "approx":
            return ev(node[2], env)
        raise HarnessError(f"unknown node {k}")

    def _check_maxmin_carrier(self, body, env):
        """(max, mul) and (min, mul) are semirings on non-negative data only: a product reachable from a
        max/min reduction through arithmetic must have non-negative operands at this point."""
        muls = [(n[2], n[3]) for n in walk(body) if n[0] == "bin" and n[1] in ("mul", "truediv", "pow")]
        # Integrate(log_measure, integrand, vars) is sum exp(log_measure) * integrand: a product with the integrand
        muls += [(n[2],) for n in walk(body) if n[0] == "integrate"]
        if not muls:
            return
        for operands in muls:
            for operand in operands:
                try:
                    neg = (np.asarray(self.ev(operand, env), dtype=float) < 0).any()
                except HarnessError:
                    # the operand lives under an inner binder: be conservative if anything in it can be negative
                    neg = any(
                        (x[0] == "var" and x[2][0] == "real") or (x[0] == "un" and x[1] == "neg") or (x[0] == "bin" and x[1] == "sub")
                        or (x[0] == "ten" and x[3] == "real" and any(v < 0 for v in x[4])) or (x[0] == "un" and x[1] in ("log", "log1p", "tanh", "atanh"))
                        for x in walk(operand)
                    )
                if neg:
                    raise OutOfDomain("max/min paired with mul on negative data (outside the declared carrier)")

    # ---- closed forms over real variables (Gaussian integrals), DESIGN.md 2.2
    def _probe_quadratic(self, fn, shapes):
        """Coefficients (P, eta, c) of z -> fn(z) = -1/2 z'Pz + z'eta + c, obtained by
        evaluating fn (the point-wise oracle) at 0, +-e_i and e_i+e_j; verified at an
        extra point.  Raises Undecided if fn is not quadratic."""
        sizes = [int(np.prod(sh)) if sh else 1 for sh in shapes]
        D = sum(sizes)

        def call(z):
            parts, o = [], 0
            for sh, n in zip(shapes, sizes):
                parts.append(np.asarray(z[o : o + n], dtype=float).reshape(sh))
                o += n
            return float(fn(parts))

        f0 = call(np.zeros(D))
        E = np.eye(D)
        fp = [call(E[i]) for i in range(D)]
        fm = [call(-E[i]) for i in range(D)]
        eta = np.array([(fp[i] - fm[i]) / 2 for i in range(D)])
        P = np.zeros((D, D))
        for i in range(D):
            P[i, i] = -(fp[i] + fm[i] - 2 * f0)
        for i in range(D):
            for j in range(i + 1, D):
                fij = call(E[i] + E[j])
                P[i, j] = P[j, i] = -(fij - fp[i] - fp[j] + f0)
        z = np.array([0.7 * ((3 * i) % 5 - 2) + 0.3 for i in range(D)])
        want = -0.5 * z @ P @ z + z @ eta + f0
        got = call(z)
        if not np.isfinite(got) or abs(got - want) > 1e-7 * (1 + abs(want)):
            raise Undecided("integrand is not quadratic in the reduced real variables")
        return P, eta, f0

    def _plug_deltas(self, bodies, reals, e2):
        """Point masses on reduced real variables: when `bodies[0]` is a sum one of whose addends is a Delta on a reduced
        name, integrating that name out evaluates everything at the Delta's point (the Delta contributes its
        log_density there).  Returns the reduced variables that remain, with e2 updated; Undecided where a Delta on a
        reduced name is not an addend of the body."""
        names = {n for n, sh in reals}
        add = additive_deltas(bodies[0])
        everywhere = [t for b in bodies for d in walk(b) if d[0] == "delta" for t in d[1] if t[0] in names]
        if not everywhere:
            return reals
        for b in bodies[1:]:
            if any(d[0] == "delta" for d in walk(b)):
                raise OutOfDomain("a Delta (log-density) used as an integrand")
        if len(everywhere) != sum(1 for t in add if t[0] in names) or len({t[0] for t in everywhere}) != len(everywhere):
            raise Undecided("Delta on a reduced variable is not an addend of the body")
        todo = [t for t in add if t[0] in names]
        for name, point, ld in todo:
            if not _is_zero(ld):
                # funsor discards the log_density of a Delta term that is integrated out by reduce() but keeps it
                # in Integrate(); the listed properties speak about unit-mass point masses only
                raise Undecided("non-unit Delta under a reduction")
        # a point may mention another integrated variable (Delta(x, p) + Delta(y, x + 1)): plug in dependency order
        pending = {t[0] for t in todo}
        while todo:
            ready = [t for t in todo if not (pending & set(typeof(t[1])[0]))]
            if not ready:
                raise Undecided("Delta points depend on each other's variables")
            for name, point, ld in ready:
                e2[name] = np.asarray(self.ev(point, e2), dtype=float)
                pending.discard(name)
            todo = [t for t in todo if t[0] in pending]
        return [(n, sh) for n, sh in reals if n not in {t[0] for t in add}]

    def _red_real(self, node, env):
        op, body, vs = node[1], node[2], node[3]
        if op != "logaddexp":
            raise Undecided(f"reduce_{op} over a real variable has no closed form")
        ints = [(n, s_) for n, s_ in vs if not isinstance(s_, (tuple, list))]
        reals0 = [(n, tuple(s_[1])) for n, s_ in vs if isinstance(s_, (tuple, list))]
        check_int_deltas(body, {n for n, s_ in ints})
        vals = []
        for idx in itertools.product(*[range(s_) for n, s_ in ints]):
            e2 = dict(env)
            e2.update({n: i for (n, s_), i in zip(ints, idx)})
            reals = self._plug_deltas([body], reals0, e2)
            if not reals:
                vals.append(np.asarray(self.ev(body, e2)))
                continue

            def fn(parts, e2=e2):
                e3 = dict(e2)
                for (n, sh), v in zip(reals, parts):
                    e3[n] = v
                return self.ev(body, e3)

            P, eta, c = self._probe_quadratic(fn, [sh for n, sh in reals])
            D = len(eta)
            w = np.linalg.eigvalsh(P)
            if w.min() <= 1e-9 * max(1.0, w.max()):
                raise NotNormalizable("precision of the integrated block is singular")
            sol = np.linalg.solve(P, eta)
            sign, logdet = np.linalg.slogdet(P)
            vals.append(np.asarray(c + 0.5 * (D * math.log(2 * math.pi) - logdet + eta @ sol)))
        return np.asarray(fold("logaddexp", vals))

    def _integrate_real(self, node, env):
        _, lm, ig, vs = node
        ints = [(n, s_) for n, s_ in vs if not isinstance(s_, (tuple, list))]
        reals0 = [(n, tuple(s_[1])) for n, s_ in vs if isinstance(s_, (tuple, list))]
        check_int_deltas(lm, {n for n, s_ in ints})
        total = None
        for idx in itertools.product(*[range(s_) for n, s_ in ints]):
            e2 = dict(env)
            e2.update({n: i for (n, s_), i in zip(ints, idx)})
            reals = self._plug_deltas([lm, ig], reals0, e2)
            if not reals:
                v = np.exp(np.asarray(self.ev(lm, e2), dtype=float)) * np.asarray(self.ev(ig, e2), dtype=float)
                total = v if total is None else total + v
                continue

            def mk(body, e2=e2):
                def fn(parts):
                    e3 = dict(e2)
                    for (n, sh), v in zip(reals, parts):
                        e3[n] = v
                    return self.ev(body, e3)

                return fn

            shapes = [sh for n, sh in reals]
            P, eta, c = self._probe_quadratic(mk(lm), shapes)
            out_shape = typeof(ig)[1][1]
            if out_shape != ():
                raise Undecided("array-valued integrand")
            A, b, k0 = self._probe_quadratic(mk(ig), shapes)
            D = len(eta)
            w = np.linalg.eigvalsh(P)
            if w.min() <= 1e-9 * max(1.0, w.max()):
                raise NotNormalizable("measure is not normalizable")
            cov = np.linalg.inv(P)
            mu = cov @ eta
            sign, logdet = np.linalg.slogdet(P)
            logz = c + 0.5 * (D * math.log(2 * math.pi) - logdet + eta @ mu)
            expect = -0.5 * (np.trace(A @ cov) + mu @ A @ mu) + b @ mu + k0
            v = np.exp(logz) * expect
            total = v if total is None else total + v
        return np.asarray(total)

    def ev_value(self, v, env, dom):
        if v[0] == "pynum":
            return np.asarray(v[1])
        if v[0] == "pyname":
            return np.asarray(env[v[1]])
        return self.ev(v, env)


def int_points(inputs):
    names = sorted(n for n, d in inputs.items() if d[0] != "real")
    for idx in itertools.product(*[range(inputs[n][0]) for n in names]):
        yield dict(zip(names, idx))


def npoints(inputs):
    r = 1
    for n, d in inputs.items():
        if d[0] != "real":
            r *= d[0]
    return r


def real_points(inputs, k, salt=0, nonneg=False):
    """k deterministic sample points for the real inputs (grid values, no RNG state)."""
    names = sorted(n for n, d in inputs.items() if d[0] == "real")
    if not names:
        return [{}]
    pts = []
    for j in range(k):
        pt = {}
        for n in names:
            shape = inputs[n][1]
            size = int(np.prod(shape)) if shape else 1
            h = sum(ord(c) for c in n) * 7 + j * 13 + salt
            sign = -1.0 if (j % 3 == 2 and not nonneg) else 1.0  # every third point has negative coordinates
            vals = [sign * 0.25 * (1 + ((h + 3 * i * i + 5 * i) % 8)) for i in range(size)]
            pt[n] = np.asarray(vals, dtype=float).reshape(shape)
        pts.append(pt)
    return pts


def delta_hit_points(node, inputs, ip, limit=3):
    """Extra assignments of the real inputs at which the point masses inside `node` are hit: every Delta point (and, for an
    Independent over a Delta, the stacked points) that has the shape of a free real input is offered as a value of it."""
    reals = {n: d for n, d in inputs.items() if d[0] == "real"}
    if not reals or not any(d[0] == "delta" for d in walk(node)):
        return []
    orc = Oracle()
    cands = {n: [] for n in reals}

    def offer(v):
        v = np.asarray(v, dtype=float)
        for n, d in reals.items():
            if tuple(d[1]) == v.shape and not any(np.array_equal(v, w) for w in cands[n]):
                cands[n].append(v)

    for d in walk(node):
        try:
            if d[0] == "delta":
                for name, point, ld in d[1]:
                    if typeof(point)[1][0] == "real" and set(typeof(point)[0]) <= set(ip):
                        offer(orc.ev(point, ip))
            elif d[0] == "indep":
                _, x, rv, bv, dv = d
                size = typeof(x)[0][bv][0]
                for dd in walk(x):
                    if dd[0] == "delta":
                        for name, point, ld in dd[1]:
                            if name == dv and set(typeof(point)[0]) <= set(ip) | {bv}:
                                offer(np.stack([np.asarray(orc.ev(point, dict(ip, **{bv: i})), dtype=float) for i in range(size)]))
        except (HarnessError, OutOfDomain, Undecided, NotNormalizable, KeyError):
            continue
    if not any(cands.values()):
        return []
    out = []
    base = real_points(inputs, 1)[0]
    for k in range(limit):
        pt = {}
        for n in reals:
            pt[n] = cands[n][k % len(cands[n])] if cands[n] and k < max(len(c) for c in cands.values()) else base[n]
        if not any(all(np.array_equal(pt[n], q[n]) for n in reals) for q in out):
            out.append(pt)
    return out


def close(a, b):
    """The comparison stated in DESIGN.md 2.2."""
    a = np.asarray(a)
    b = np.asarray(b)
    if a.shape != b.shape:
        return False
    a = a.astype(float)
    b = b.astype(float)
    na, nb = np.isnan(a), np.isnan(b)
    if not np.array_equal(na, nb):
        return False
    a, b = a[~na], b[~na]
    inf = np.isinf(a) | np.isinf(b)
    if not np.array_equal(a[inf], b[inf]):
        return False
    a, b = a[~inf], b[~inf]
    d = np.abs(a - b)
    tol = 1e-8 + 1e-6 * np.maximum(np.abs(a), np.abs(b))
    return bool((d <= tol).all())


# --------------------------------------------------------------- pretty printer
def show(node, depth=0):
    k = node[0]
    if k == "num":
        return f"{node[1]}" if node[2] == "real" else f"Number({node[1]},{node[2]})"
    if k == "ten":
        names = ",".join(f"{n}:{s}" for n, s in node[1])
        ev = f"{tuple(node[2])}" if node[2] else ""
        dt = "" if node[3] == "real" else f"<{node[3]}{'b' if len(node) > 5 and node[5] else ''}>"
        data = list(node[4])
        ds = str(data if len(data) <= 6 else data[:6] + ["..."]).replace(" ", "")
        return f"T[{names}]{ev}{dt}{ds}"
    if k == "var":
        return f"Var({node[1]}:{node[2][0]}{list(node[2][1]) if node[2][1] else ''})"
    if k == "gauss":
        return "Gaussian[" + ",".join(f"{n}:{dict(node[1]).get(n, dict((a, list(b)) for a, b in node[2]).get(n))}" for n in node[3]) + f";rank={node[4]}]"
    if k == "un":
        return f"{node[1]}({show(node[2])})"
    if k == "unp":
        return f"{node[1]}{list(node[2]) if isinstance(node[2], tuple) else node[2]}({show(node[3])})"
    if k == "bin":
        return f"{node[1]}({show(node[2])}, {show(node[3])})"
    if k == "getitem":
        return f"getitem@{node[1]}({show(node[2])}, {show(node[3])})"
    if k == "red":
        return f"reduce_{node[1]}[{','.join(f'{n}:{s}' for n, s in node[3])}]({show(node[2])})"
    if k == "sub":
        return f"({show(node[1])})(" + ", ".join(f"{n}={show_value(v)}" for n, v in node[2]) + ")"
    if k == "stack":
        return f"Stack[{node[1]}](" + ", ".join(show(p) for p in node[2]) + ")"
    if k == "cat":
        return f"Cat[{node[1]}<-{node[3]}](" + ", ".join(show(p) for p in node[2]) + ")"
    if k == "slice":
        return f"Slice({node[1]},{node[2]},{node[3]},{node[4]},{node[5]})"
    if k == "lam":
        return f"Lambda[{node[1]}:{node[2]}]({show(node[3])})"
    if k == "indep":
        return f"Independent({show(node[1])}, {node[2]}, {node[3]}, {node[4]})"
    if k == "einsum":
        return f"einsum['{node[1]}'](" + ", ".join(show(p) for p in node[2]) + ")"
    if k in ("fstack", "fcat"):
        return f"{k}[{node[1]}](" + ", ".join(show(p) for p in node[2]) + ")"
    if k == "align":
        return f"align{list(node[1])}({show(node[2])})"
    if k == "delta":
        return "Delta(" + "; ".join(f"{n}={show(pt)} @ {show(ld)}" for n, pt, ld in node[1]) + ")"
    if k == "const":
        return f"Constant[{','.join(f'{n}:{s_}' for n, s_ in node[1])}]({show(node[2])})"
    if k == "integrate":
        return f"Integrate[{','.join(n for n, s in node[3])}]({show(node[1])}, {show(node[2])})"
    if k == "approx":
        return f"Approximate_{node[1]}[{','.join(n for n, s in node[4])}]({show(node[2])}, {show(node[3])})"
    return str(node)


def show_value(v):
    if v[0] == "pynum":
        return repr(v[1])
    if v[0] == "pyname":
        return repr(v[1])
    return show(v)


def walk(node):
    """All sub-nodes (pre-order), including substitution values that are nodes."""
    yield node
    k = node[0]
    if k in ("num", "ten", "var", "slice", "gauss"):
        return
    for c in node[1:]:
        if isinstance(c, tuple) and c and isinstance(c[0], str) and c[0] in KINDS:
            yield from walk(c)
        elif isinstance(c, tuple):
            for cc in c:
                if isinstance(cc, tuple) and cc and isinstance(cc[0], str) and cc[0] in KINDS:
                    yield from walk(cc)
                elif isinstance(cc, tuple) and len(cc) == 2 and isinstance(cc[1], tuple) and cc[1] and cc[1][0] in KINDS:
                    yield from walk(cc[1])
                elif isinstance(cc, tuple) and len(cc) == 3 and k == "delta":
                    yield from walk(cc[1])
                    yield from walk(cc[2])


KINDS = {
    "num", "ten", "var", "un", "unp", "bin", "getitem", "red", "sub", "stack", "cat", "slice",
    "lam", "indep", "einsum", "fstack", "fcat", "align", "integrate", "approx", "gauss", "const", "delta",
}


def size_of(node):
    return sum(1 for _ in walk(node))


# --------------------------------------------------------------- AST shrinker
def _is_node(c):
    return isinstance(c, tuple) and len(c) > 0 and isinstance(c[0], str) and c[0] in KINDS


def positions(node, path=()):
    """(path, subnode) for every sub-node; path = indices into nested tuples."""
    yield path, node
    if node[0] in ("num", "ten", "var", "slice", "gauss"):
        return
    for i, c in enumerate(node[1:], 1):
        if _is_node(c):
            yield from positions(c, path + (i,))
        elif isinstance(c, tuple):
            for j, cc in enumerate(c):
                if _is_node(cc):
                    yield from positions(cc, path + (i, j))
                elif isinstance(cc, tuple) and len(cc) == 2 and _is_node(cc[1]):
                    yield from positions(cc[1], path + (i, j, 1))
                elif isinstance(cc, tuple) and len(cc) == 3 and node[0] == "delta":
                    yield from positions(cc[1], path + (i, j, 1))
                    yield from positions(cc[2], path + (i, j, 2))


def replace_at(node, path, new):
    if not path:
        return new
    i = path[0]
    return node[:i] + (replace_at(node[i], path[1:], new),) + node[i + 1 :]


def _const_leaf(dom):
    dt, shape = dom
    n = 1
    for s in shape:
        n *= s
    if dt == "real":
        return ("ten", (), tuple(shape), "real", tuple([0.5] * n), False)
    return ("ten", (), tuple(shape), dt, tuple([0] * n), False)


def is_bool_data(node):
    """Does this expression produce numpy-bool data (needed by invert/and/or/xor)?"""
    k = node[0]
    if k == "ten":
        return bool(len(node) > 5 and node[5])
    if k == "bin":
        if node[1] in COMPARISONS:
            # a comparison of two Python scalars yields a Number, whose invert is bitwise by design
            return node[2][0] == "ten" or node[3][0] == "ten"
        if node[1] in LOGICAL:
            return is_bool_data(node[2]) and is_bool_data(node[3])
        return False
    if k == "un":
        return node[1] == "invert" and is_bool_data(node[2])
    if k == "red":
        return node[1] in ("and", "or") and is_bool_data(node[2])
    if k in ("sub", "align", "const"):
        return is_bool_data(node[1] if k == "sub" else node[2])
    if k == "stack":
        return all(is_bool_data(p) for p in node[2])
    return False


def in_generator_domain(root):
    """Preconditions the generators guarantee and shrinking must preserve."""
    for n in walk(root):
        if n[0] == "un" and n[1] == "invert" and not is_bool_data(n[2]):
            return False
        if n[0] == "bin" and n[1] in LOGICAL and not (is_bool_data(n[2]) and is_bool_data(n[3])):
            return False
        if n[0] == "red" and n[1] in ("and", "or") and not is_bool_data(n[2]):
            return False
        if n[0] == "getitem" and is_bool_data(n[3]):
            return False
        if n[0] == "sub" and any(v[0] in KINDS and is_bool_data(v) for kk, v in n[2]):
            return False
    return True


def ast_shrinks(root):
    """Smaller well-typed variants of `root`, most aggressive first."""
    out = []
    pos = list(positions(root))
    for path, sub in pos:
        if sub[0] in ("num", "ten", "var", "slice"):
            continue
        try:
            dom = typeof(sub)[1]
        except HarnessError:
            continue
        seen = set()
        for p2, d in positions(sub):
            if not p2:
                continue
            try:
                if typeof(d)[1] == dom and id(d) not in seen:
                    seen.add(id(d))
                    out.append((size_of(sub) - size_of(d), replace_at(root, path, d)))
            except HarnessError:
                pass
        out.append((size_of(sub) - 1, replace_at(root, path, _const_leaf(dom))))
        if sub[0] == "sub" and len(sub[2]) > 1:
            for j in range(len(sub[2])):
                out.append((1, replace_at(root, path, ("sub", sub[1], sub[2][:j] + sub[2][j + 1 :]))))
        if sub[0] == "red" and len(sub[3]) > 1:
            for j in range(len(sub[3])):
                out.append((1, replace_at(root, path, ("red", sub[1], sub[2], sub[3][:j] + sub[3][j + 1 :]))))
    out.sort(key=lambda t: -t[0])
    for gain, cand in out:
        try:
            typeof(cand)
        except HarnessError:
            continue
        except Exception:
            continue
        if not in_generator_domain(cand):
            continue
        yield cand


# --------------------------------------------------------------- alpha renaming (C05)
def rename_free(node, old, new):
    """Rename free occurrences of input name `old` to `new` (capture is the caller's business:
    `new` must be globally fresh)."""
    k = node[0]
    R = lambda n: rename_free(n, old, new)  # noqa: E731
    if k == "num":
        return node
    if k == "ten":
        return ("ten", tuple((new if n == old else n, s) for n, s in node[1])) + node[2:]
    if k == "gauss":
        rn = lambda n: new if n == old else n  # noqa: E731
        return ("gauss", tuple((rn(n), s) for n, s in node[1]), tuple((rn(n), sh) for n, sh in node[2]), tuple(rn(n) for n in node[3])) + node[4:]
    if k == "var":
        return ("var", new if node[1] == old else node[1], node[2])
    if k == "slice":
        return ("slice", new if node[1] == old else node[1]) + node[2:]
    if k == "un":
        return ("un", node[1], R(node[2]))
    if k == "unp":
        return ("unp", node[1], node[2], R(node[3]))
    if k == "bin":
        return ("bin", node[1], R(node[2]), R(node[3]))
    if k == "getitem":
        return ("getitem", node[1], R(node[2]), R(node[3]))
    if k == "red":
        if any(n == old for n, s in node[3]):
            return node
        return ("red", node[1], R(node[2]), node[3])
    if k == "sub":
        inp = typeof(node[1])[0]
        keys = [kk for kk, v in node[2] if kk in inp]
        x = node[1] if old in keys else R(node[1])
        subs = tuple((kk, rename_value(v, old, new)) for kk, v in node[2])
        return ("sub", x, subs)
    if k == "stack":
        return ("stack", new if node[1] == old else node[1], tuple(R(p) for p in node[2]))
    if k == "cat":
        name, parts, pn = node[1], node[2], node[3]
        parts2 = parts if old == pn else tuple(R(p) for p in parts)
        return ("cat", new if name == old else name, parts2, pn)
    if k == "lam":
        if node[1] == old:
            return node
        return ("lam", node[1], node[2], R(node[3]))
    if k == "indep":
        _, x, rv, bv, dv = node
        x2 = x if old in (bv, dv) else R(x)
        return ("indep", x2, new if rv == old else rv, bv, dv)
    if k == "einsum":
        return ("einsum", node[1], tuple(R(x) for x in node[2]))
    if k in ("fstack", "fcat"):
        return (k, node[1], tuple(R(x) for x in node[2]))
    if k == "align":
        return ("align", tuple(new if n == old else n for n in node[1]), R(node[2]))
    if k == "const":
        return ("const", tuple((new if n == old else n, s_) for n, s_ in node[1]), R(node[2]))
    if k == "delta":
        return ("delta", tuple((new if n == old else n, R(pt), R(ld)) for n, pt, ld in node[1]))
    if k == "integrate":
        if any(n == old for n, s in node[3]):
            return node
        return ("integrate", R(node[1]), R(node[2]), node[3])
    if k == "approx":
        return ("approx", node[1], R(node[2]), R(node[3]), tuple((new if n == old else n, s) for n, s in node[4]))
    raise HarnessError(k)


def rename_value(v, old, new):
    if v[0] == "pynum":
        return v
    if v[0] == "pyname":
        return ("pyname", new if v[1] == old else v[1])
    return rename_free(v, old, new)


def rename_binders(node, counter=None):
    """Alpha-equivalent AST in which every binder uses a globally fresh name."""
    if counter is None:
        counter = [0]

    def fresh(old):
        counter[0] += 1
        return f"{old}_r{counter[0]}"

    A = lambda n: rename_binders(n, counter)  # noqa: E731
    k = node[0]
    if k in ("num", "ten", "var", "slice", "gauss"):
        return node
    if k == "un":
        return ("un", node[1], A(node[2]))
    if k == "unp":
        return ("unp", node[1], node[2], A(node[3]))
    if k == "bin":
        return ("bin", node[1], A(node[2]), A(node[3]))
    if k == "getitem":
        return ("getitem", node[1], A(node[2]), A(node[3]))
    if k == "red":
        x = A(node[2])
        vs = []
        for n, s in node[3]:
            nn = fresh(n)
            x = rename_free(x, n, nn)
            vs.append((nn, s))
        return ("red", node[1], x, tuple(vs))
    if k == "sub":
        x = A(node[1])
        inp = typeof(node[1])[0]
        subs = []
        for kk, v in node[2]:
            v2 = v if v[0] in ("pynum", "pyname") else A(v)
            if kk in inp:
                nn = fresh(kk)
                x = rename_free(x, kk, nn)
                subs.append((nn, v2))
            else:
                subs.append((kk, v2))
        return ("sub", x, tuple(subs))
    if k == "stack":
        return ("stack", node[1], tuple(A(p) for p in node[2]))
    if k == "cat":
        name, parts, pn = node[1], node[2], node[3]
        nn = fresh(pn)
        return ("cat", name, tuple(rename_free(A(p), pn, nn) for p in parts), nn)
    if k == "lam":
        nn = fresh(node[1])
        return ("lam", nn, node[2], rename_free(A(node[3]), node[1], nn))
    if k == "indep":
        _, x, rv, bv, dv = node
        x = A(x)
        nb, nd = fresh(bv), fresh(dv)
        x = rename_free(rename_free(x, bv, nb), dv, nd)
        return ("indep", x, rv, nb, nd)
    if k == "einsum":
        return ("einsum", node[1], tuple(A(x) for x in node[2]))
    if k in ("fstack", "fcat"):
        return (k, node[1], tuple(A(x) for x in node[2]))
    if k == "align":
        return ("align", node[1], A(node[2]))
    if k == "const":
        return ("const", node[1], A(node[2]))
    if k == "delta":
        return ("delta", tuple((n, A(pt), A(ld)) for n, pt, ld in node[1]))
    if k == "integrate":
        lm, ig = A(node[1]), A(node[2])
        vs = []
        for n, s in node[3]:
            nn = fresh(n)
            lm, ig = rename_free(lm, n, nn), rename_free(ig, n, nn)
            vs.append((nn, s))
        return ("integrate", lm, ig, tuple(vs))
    if k == "approx":
        return ("approx", node[1], A(node[2]), A(node[3]), node[4])
    raise HarnessError(k)


def binder_names(node):
    """List (with multiplicity) of user-chosen bound names in the AST."""
    out = []
    for n in walk(node):
        k = n[0]
        if k == "red":
            out += [x for x, s in n[3]]
        elif k == "sub":
            inp = typeof(n[1])[0]
            out += [kk for kk, v in n[2] if kk in inp]
        elif k == "cat":
            out.append(n[3])
        elif k == "lam":
            out.append(n[1])
        elif k == "indep":
            out += [n[3], n[4]]
        elif k == "integrate":
            out += [x for x, s in n[3]]
    return out


def leaf_names(node):
    out = set()
    for n in walk(node):
        if n[0] == "ten":
            out |= {x for x, s in n[1]}
        elif n[0] in ("var", "slice"):
            out.add(n[1])
        elif n[0] == "const":
            out |= {x for x, s in n[1]}
        elif n[0] == "delta":
            out |= {x for x, pt, ld in n[1]}
    return out
