"""funsor term objects -> AST of vf/lang.py (so that the same reference evaluator gives
their value).  Needed for C02, whose left-hand sides are (class, args) pairs produced by
funsor itself.  Validated on every generated program by the cross-check
oracle(to_ast(build(ast) under reflect)) == oracle(ast)."""
import numpy as np

from vf.lang import Undecided


class Unsupported(Undecided):
    pass


def dom_of(d):
    return (d.dtype, tuple(d.shape))


def vspec(v):
    d = v.output
    if d.dtype == "real":
        return (v.name, ("real", tuple(d.shape)))
    if d.shape:
        raise Unsupported("array-valued integer variable")
    return (v.name, d.dtype)


UNARY_NAMES = {"neg", "abs", "exp", "log", "sqrt", "log1p", "sigmoid", "tanh", "atanh", "reciprocal", "pos", "invert"}
BINARY_NAMES = {
    "add": "add", "sub": "sub", "mul": "mul", "truediv": "truediv", "floordiv": "floordiv", "mod": "mod", "pow": "pow", "max": "max", "min": "min",
    "logaddexp": "logaddexp", "and_": "and", "or_": "or", "xor": "xor", "eq": "eq", "ne": "ne", "lt": "lt", "le": "le", "gt": "gt", "ge": "ge", "matmul": "matmul",
    "sample": "logaddexp", "safesub": "sub", "safediv": "truediv",
}
REDUCTION_NAMES = {"sum", "prod", "amax", "amin", "logsumexp", "mean", "std", "var", "all", "any"}


def index_spec(index):
    if not isinstance(index, tuple):
        index = (index,)
    out = []
    for it in index:
        if it is None:
            out.append(("n",))
        elif it is Ellipsis:
            out.append(("e",))
        elif isinstance(it, slice):
            out.append(("s", it.start, it.stop, it.step))
        elif isinstance(it, (int, np.integer)):
            out.append(("i", int(it)))
        else:
            raise Unsupported(f"index {it!r}")
    return tuple(out)


def to_ast(t, memo=None):
    from funsor.cnf import Contraction
    from funsor.constant import Constant
    from funsor.delta import Delta
    from funsor.gaussian import Gaussian
    from funsor.integrate import Integrate
    from funsor.tensor import Tensor
    from funsor.terms import (
        Align, Approximate, Binary, Cat, Finitary, Independent, Lambda, Number, Reduce, Slice, Stack, Subs, Unary, Variable,
    )
    from funsor import ops

    if memo is None:
        memo = {}
    if id(t) in memo:
        return memo[id(t)]
    A = lambda x: to_ast(x, memo)  # noqa: E731
    r = None
    if isinstance(t, Number):
        r = ("num", t.data, t.dtype)
    elif isinstance(t, Tensor):
        if any(d.dtype == "real" or d.shape for d in t.inputs.values()):
            raise Unsupported("tensor with non-scalar-integer inputs")
        data = np.asarray(t.data)
        is_bool = data.dtype == bool
        flat = tuple(data.reshape(-1).tolist())
        r = ("ten", tuple((n, d.dtype) for n, d in t.inputs.items()), tuple(t.output.shape), t.dtype, flat, bool(is_bool))
    elif isinstance(t, Variable):
        r = ("var", t.name, dom_of(t.output))
    elif isinstance(t, Slice):
        r = ("slice", t.name, t.slice.start, t.slice.stop, t.slice.step, t.dtype)
    elif isinstance(t, Gaussian):
        ints = tuple((n, d.dtype) for n, d in t.inputs.items() if d.dtype != "real")
        reals = tuple((n, tuple(d.shape)) for n, d in t.inputs.items() if d.dtype == "real")
        rank = t.prec_sqrt.shape[-1]
        r = ("gauss", ints, reals, tuple(t.inputs), rank, tuple(np.asarray(t.white_vec, dtype=float).reshape(-1).tolist()), tuple(np.asarray(t.prec_sqrt, dtype=float).reshape(-1).tolist()))
    elif isinstance(t, Unary):
        op = t.op
        name = op.name if hasattr(op, "name") else getattr(op, "__name__", "")
        name = getattr(op, "__name__", name)
        if name in UNARY_NAMES:
            r = ("un", name, A(t.arg))
        elif name in REDUCTION_NAMES:
            d = op.defaults
            if d.get("ddof", 0) not in (0, None):
                raise Unsupported("ddof")
            axis = d.get("axis", None)
            r = ("unp", name, (tuple(axis) if isinstance(axis, (tuple, list)) else axis, bool(d.get("keepdims", False))), A(t.arg))
        elif isinstance(op, ops.ReshapeOp):
            r = ("unp", "reshape", tuple(op.defaults["shape"]), A(t.arg))
        elif isinstance(op, ops.GetsliceOp):
            r = ("unp", "getslice", index_spec(op.defaults["index"]), A(t.arg))
        else:
            raise Unsupported(f"unary {name}")
    elif isinstance(t, Binary):
        op = t.op
        if isinstance(op, ops.GetitemOp):
            r = ("getitem", op.defaults["offset"], A(t.lhs), A(t.rhs))
        else:
            name = getattr(op, "__name__", "")
            if name not in BINARY_NAMES:
                raise Unsupported(f"binary {name}")
            r = ("bin", BINARY_NAMES[name], A(t.lhs), A(t.rhs))
    elif isinstance(t, Reduce):
        name = getattr(t.op, "__name__", "")
        if name not in BINARY_NAMES:
            raise Unsupported(f"reduce {name}")
        r = ("red", BINARY_NAMES[name], A(t.arg), tuple(sorted(vspec(v) for v in t.reduced_vars)))
    elif isinstance(t, Contraction):
        r = contraction_ast(t.red_op, t.bin_op, t.reduced_vars, t.terms, memo)
    elif isinstance(t, Subs):
        r = ("sub", A(t.arg), tuple((k, A(v)) for k, v in t.subs.items()))
    elif isinstance(t, Stack):
        r = ("stack", t.name, tuple(A(p) for p in t.parts))
    elif isinstance(t, Cat):
        r = ("cat", t.name, tuple(A(p) for p in t.parts), t.part_name)
    elif isinstance(t, Lambda):
        r = ("lam", t.var.name, t.var.output.dtype, A(t.expr))
    elif isinstance(t, Independent):
        r = ("indep", A(t.fn), t.reals_var, t.bint_var, t.diag_var)
    elif isinstance(t, Align):
        r = ("align", tuple(t.inputs), A(t.arg))
    elif isinstance(t, Delta):
        r = ("delta", tuple((n, A(pt), A(ld)) for n, (pt, ld) in t.terms))
    elif isinstance(t, Constant):
        r = ("const", tuple(vspec(v) for v in sorted(t.const_vars, key=lambda v: v.name)), A(t.arg))
    elif isinstance(t, Approximate):
        r = ("approx", getattr(t.op, "__name__", "op"), A(t.model), A(t.guide), tuple(sorted(vspec(v) for v in t.approx_vars)))
    elif isinstance(t, Integrate):
        r = ("integrate", A(t.log_measure), A(t.integrand), tuple(sorted(vspec(v) for v in t.reduced_vars)))
    elif isinstance(t, Finitary):
        op = t.op
        if isinstance(op, ops.EinsumOp):
            r = ("einsum", op.defaults["equation"], tuple(A(x) for x in t.args))
        elif isinstance(op, ops.StackOp):
            r = ("fstack", op.defaults["dim"], tuple(A(x) for x in t.args))
        elif isinstance(op, ops.CatOp):
            r = ("fcat", op.defaults["axis"], tuple(A(x) for x in t.args))
        else:
            raise Unsupported("finitary op")
    else:
        raise Unsupported(type(t).__name__.split("[")[0])
    memo[id(t)] = r
    return r


def contraction_ast(red_op, bin_op, reduced_vars, terms, memo=None):
    """AST of Contraction(red_op, bin_op, reduced_vars, terms) from its arguments (also for requests
    that the constructor itself would reject, e.g. (add, add), which normalize rewrites first)."""
    from funsor import ops

    terms = [to_ast(x, memo) for x in terms]
    body = terms[0]
    if bin_op is not ops.null:
        bname = BINARY_NAMES.get(getattr(bin_op, "__name__", ""))
        if bname is None:
            raise Unsupported("contraction bin_op")
        for x in terms[1:]:
            body = ("bin", bname, body, x)
    elif len(terms) != 1:
        raise Unsupported("null bin_op with several terms")
    if not reduced_vars:
        return body
    if red_op is ops.null:
        raise Unsupported("null red_op with reduced vars")
    rname = BINARY_NAMES.get(getattr(red_op, "__name__", ""))
    if rname is None:
        raise Unsupported("contraction red_op")
    return ("red", rname, body, tuple(sorted(vspec(v) for v in reduced_vars)))
