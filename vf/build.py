"""AST -> funsor through the public constructors, and evaluation of a funsor
result at a point.  This is the only module of the language layer that
imports funsor."""
from collections import OrderedDict

import numpy as np

import funsor
from funsor import ops
from funsor.domains import Array, Bint, Reals
from funsor.tensor import Einsum, Tensor
from funsor.terms import (
    Approximate,
    Cat,
    Funsor,
    Independent,
    Lambda,
    Number,
    Slice,
    Stack,
    Variable,
)

from vf.core import Decline, HarnessError, innermost_funsor_frame
from vf.lang import parse_index, typeof

UNARY = {
    "neg": ops.neg,
    "abs": ops.abs,
    "exp": ops.exp,
    "log": ops.log,
    "sqrt": ops.sqrt,
    "log1p": ops.log1p,
    "sigmoid": ops.sigmoid,
    "tanh": ops.tanh,
    "atanh": ops.atanh,
    "reciprocal": ops.reciprocal,
    "pos": ops.pos,
    "invert": ops.invert,
}
BINARY = {
    "add": ops.add,
    "sub": ops.sub,
    "mul": ops.mul,
    "truediv": ops.truediv,
    "floordiv": ops.floordiv,
    "mod": ops.mod,
    "pow": ops.pow,
    "max": ops.max,
    "min": ops.min,
    "logaddexp": ops.logaddexp,
    "and": ops.and_,
    "or": ops.or_,
    "xor": ops.xor,
    "eq": ops.eq,
    "ne": ops.ne,
    "lt": ops.lt,
    "le": ops.le,
    "gt": ops.gt,
    "ge": ops.ge,
    "matmul": ops.matmul,
}
REDUCTION_METHOD = {
    "sum": "sum",
    "prod": "prod",
    "amax": "max",
    "amin": "min",
    "logsumexp": "logsumexp",
    "mean": "mean",
    "std": "std",
    "var": "var",
    "all": "all",
    "any": "any",
}


def dom_to_funsor(dom):
    dt, sh = dom
    return Array[dt, tuple(sh)]


class Leaves:
    """Array factory: every array handed to funsor is registered here so that
    the mutation monitor (C20) can re-hash it."""

    def __init__(self, readonly=False, share=True):
        self.readonly = readonly
        self.arrays = []
        self.shared = {} if share else None
        # the caller holds its operands: leaf funsors stay alive for the whole program, so a second use of an equal leaf
        # meets the very object (hash-consing is weak) with whatever it has cached by then
        self.alive = []

    def make(self, node):
        # equal leaf nodes denote one array, hence (by hash-consing) one Tensor object: generated terms are DAGs with
        # shared leaves and shared sub-terms, as in user code that reuses a tensor
        if self.shared is None:  # every occurrence of a leaf is its own array (C11: the root is multilinear per leaf)
            return self._fresh(node)
        try:
            hit = self.shared.get(node)
        except TypeError:  # a node holding lists (not yet converted from JSON): no sharing
            return self._fresh(node)
        if hit is None:
            hit = self.shared[node] = self._fresh(node)
        return hit

    def _fresh(self, node):
        sizes = tuple(s for n, s in node[1])
        shape = tuple(node[2])
        dt = float if node[3] == "real" else (bool if (len(node) > 5 and node[5]) else np.int64)
        arr = np.array(node[4], dtype=dt).reshape(sizes + shape)
        if self.readonly:
            arr.flags.writeable = False
        self.arrays.append((arr, arr.tobytes(), arr.shape, arr.dtype, arr.strides))
        return arr

    def changed(self):
        out = []
        for arr, h, shape, dtype, strides in self.arrays:
            if arr.tobytes() != h or arr.shape != shape or arr.dtype != dtype or arr.strides != strides:
                out.append((arr, shape))
        return out


def build(node, leaves=None):
    """Build under whatever interpretation is active.  `leaves.on_built`, if set, is called with every
    funsor right after it is built, i.e. before its parent is constructed (C20 snapshots sub-terms there)."""
    if leaves is None:
        leaves = Leaves()
    r = _build(node, leaves)
    cb = getattr(leaves, "on_built", None)
    if cb is not None:
        cb(r)
    return r


def _build(node, leaves):
    B = lambda n: build(n, leaves)  # noqa: E731
    k = node[0]
    if k == "num":
        return Number(node[1], node[2])
    if k == "ten":
        pre = getattr(leaves, "prebuilt", None)
        if pre is not None and id(node) in pre:
            return pre[id(node)]  # operand created by the caller outside the current context
        inputs = OrderedDict((n, Bint[s]) for n, s in node[1])
        t_ = Tensor(leaves.make(node), inputs, node[3])
        if leaves.shared is not None and len(leaves.alive) < 200:
            leaves.alive.append(t_)
        return t_
    if k == "var":
        return Variable(node[1], dom_to_funsor(node[2]))
    if k == "gauss":
        from funsor.gaussian import Gaussian

        _, ints, reals, order, rank, wflat, sflat = node[:7]
        bshape = tuple(s for n, s in ints)
        D = sum(int(np.prod(sh)) if sh else 1 for n, sh in reals)
        hit = None
        if leaves.shared is not None:
            try:
                hit = leaves.shared.get(("gauss-arrays", node))
            except TypeError:
                hit = None
        if hit is not None:
            w, S = hit  # equal Gaussian leaves are one pair of arrays, hence (hash-consing) one Gaussian object
        else:
            w = np.array(wflat, dtype=float).reshape(bshape + (rank,))
            S = np.array(sflat, dtype=float).reshape(bshape + (D, rank))
            if leaves.readonly:
                w.flags.writeable = False
                S.flags.writeable = False
            for arr in (w, S):
                leaves.arrays.append((arr, arr.tobytes(), arr.shape, arr.dtype, arr.strides))
            if leaves.shared is not None:
                try:
                    leaves.shared[("gauss-arrays", node)] = (w, S)
                except TypeError:
                    pass
        doms = {n: Bint[s] for n, s in ints}
        doms.update({n: Reals[tuple(sh)] for n, sh in reals})
        # batch dims follow the order of the integer inputs, event dims that of the real inputs
        int_order = [n for n in order if n in dict(ints)]
        real_order = [n for n in order if n in dict(reals)]
        assert int_order == [n for n, s in ints] and real_order == [n for n, sh in reals]
        g_ = Gaussian(white_vec=w, prec_sqrt=S, inputs=OrderedDict((n, doms[n]) for n in order))
        if leaves.shared is not None and len(leaves.alive) < 200:
            leaves.alive.append(g_)
        return g_
    if k == "un":
        x = B(node[2])
        op = node[1]
        if op == "neg":
            return -x
        if op == "pos":
            return +x
        if op == "invert":
            return ~x
        if op == "reciprocal":
            return ops.reciprocal(x)
        return getattr(x, op)()
    if k == "unp":
        op, params, xn = node[1], node[2], node[3]
        x = B(xn)
        if op in REDUCTION_METHOD:
            axis, keepdims = params
            ax = tuple(axis) if isinstance(axis, (tuple, list)) else axis
            return getattr(x, REDUCTION_METHOD[op])(ax, keepdims=bool(keepdims))
        if op == "reshape":
            return x.reshape(tuple(params))
        if op == "getslice":
            idx = parse_index(params, None)
            return x[idx if len(idx) != 1 else idx[0]]
        raise HarnessError(op)
    if k == "bin":
        op = node[1]
        x, y = B(node[2]), B(node[3])
        f = BINARY[op]
        return f(x, y)
    if k == "getitem":
        x, i = B(node[2]), B(node[3])
        off = node[1]
        if off == 0:
            return x[i]
        return x[(slice(None),) * off + (i,)]
    if k == "red":
        x = B(node[2])
        vs = []
        for n, s in node[3]:
            if isinstance(s, (tuple, list)):
                vs.append(Variable(n, Reals[tuple(s[1])]))
            else:
                vs.append(n if (n in x.inputs and (len(n) + s) % 2 == 0) else Variable(n, Bint[s]))
        return x.reduce(BINARY[node[1]], frozenset(vs))
    if k == "sub":
        x = B(node[1])
        kw = OrderedDict()
        for name, v in node[2]:
            if v[0] == "pynum":
                kw[name] = v[1]
            elif v[0] == "pyname":
                kw[name] = v[1]
            else:
                kw[name] = B(v)
        return x(**kw)
    if k == "stack":
        return Stack(node[1], tuple(B(p) for p in node[2]))
    if k == "cat":
        return Cat(node[1], tuple(B(p) for p in node[2]), node[3])
    if k == "slice":
        return Slice(node[1], node[2], node[3], node[4], node[5])
    if k == "lam":
        return Lambda(Variable(node[1], Bint[node[2]]), B(node[3]))
    if k == "indep":
        return Independent(B(node[1]), node[2], node[3], node[4])
    if k == "einsum":
        return Einsum(node[1], *[B(x) for x in node[2]])
    if k == "fstack":
        return ops.stack(tuple(B(x) for x in node[2]), node[1])
    if k == "fcat":
        return ops.cat(tuple(B(x) for x in node[2]), node[1])
    if k == "align":
        return B(node[2]).align(tuple(node[1]))
    if k == "delta":
        from funsor.delta import Delta

        return Delta(tuple((n, (B(pt), B(ld))) for n, pt, ld in node[1]))
    if k == "const":
        from funsor.constant import Constant

        return Constant(OrderedDict((n, Reals[tuple(s_[1])] if isinstance(s_, (tuple, list)) else Bint[s_]) for n, s_ in node[1]), B(node[2]))
    if k == "integrate":
        from funsor.integrate import Integrate

        vs = frozenset(Variable(n, Reals[tuple(s[1])]) if isinstance(s, (tuple, list)) else Variable(n, Bint[s]) for n, s in node[3])
        return Integrate(B(node[1]), B(node[2]), vs)
    if k == "approx":
        m, g = B(node[2]), B(node[3])
        vs = frozenset(Variable(n, Bint[s]) for n, s in node[4])
        return m.approximate(BINARY[node[1]], g, vs)
    raise HarnessError(f"unknown node {k}")


def funsor_type(f):
    """(inputs dict name -> dom, output dom) as declared by the funsor."""
    inputs = {}
    for n, d in f.inputs.items():
        inputs[n] = (d.dtype, tuple(d.shape))
    return inputs, (f.output.dtype, tuple(f.output.shape))


def eval_at(f, point):
    """Value of funsor `f` at `point` (name -> int | array).  Raises Decline if
    the funsor stays lazy."""
    if isinstance(f, Number):
        return np.asarray(f.data)
    if isinstance(f, Tensor):
        if all(d.dtype != "real" for d in f.inputs.values()):
            try:
                idx = tuple(int(point[k]) for k in f.inputs)
            except KeyError as e:
                raise HarnessError(f"point lacks {e}")
            return np.asarray(f.data[idx])
    kw = {}
    for kname, d in f.inputs.items():
        if kname not in point:
            raise HarnessError(f"point lacks {kname}")
        v = point[kname]
        kw[kname] = int(v) if d.dtype != "real" else np.asarray(v, dtype=float)
    r = f(**kw)
    if isinstance(r, Number):
        return np.asarray(r.data)
    if isinstance(r, Tensor) and not r.inputs:
        return np.asarray(r.data)
    raise Decline("lazy-after-binding:" + type(r).__name__.split("[")[0])


def check_tensor_data(f):
    """C06: the data of a Tensor honours its declaration.  Returns an error string or None."""
    if isinstance(f, Tensor):
        want = tuple(d.dtype for d in f.inputs.values()) + tuple(f.output.shape)
        if tuple(f.data.shape) != want:
            return f"data.shape {f.data.shape} but declared batch+event {want}"
        if f.dtype != "real":
            data = np.asarray(f.data)
            if data.size and data.dtype != bool:
                if data.min() < 0 or data.max() >= f.dtype:
                    return f"bounded-integer data range [{data.min()},{data.max()}] outside [0,{f.dtype})"
    if isinstance(f, Number) and f.dtype != "real" and f.dtype != 2:
        if not (0 <= f.data < f.dtype):
            return f"Number {f.data} outside [0,{f.dtype})"
    return None
