"""Shared runner primitives: violations, declines, per-shard statistics.

Nothing in here imports funsor.
"""
import hashlib
import json
import collections


class Violation(Exception):
    """The property is broken on this case.  `bucket` groups by root cause."""

    def __init__(self, bucket, message=""):
        super().__init__(f"{bucket}: {message}")
        self.bucket = bucket
        self.message = message


class Decline(Exception):
    """funsor declined (lazy result / exception) where the property allows it."""

    def __init__(self, bucket):
        super().__init__(bucket)
        self.bucket = bucket


class HarnessError(Exception):
    """The framework itself is wrong (ill-typed generated case, ...)."""


def to_jsonable(x):
    import numpy as np

    if isinstance(x, (tuple, list)):
        return [to_jsonable(i) for i in x]
    if isinstance(x, dict):
        return {str(k): to_jsonable(v) for k, v in x.items()}
    if isinstance(x, (np.bool_, bool)):
        return bool(x)
    if isinstance(x, np.integer):
        return int(x)
    if isinstance(x, (np.floating, float)):
        x = float(x)
        if x != x:
            return "nan"
        if x == float("inf"):
            return "inf"
        if x == float("-inf"):
            return "-inf"
        return x
    if isinstance(x, np.ndarray):
        return to_jsonable(x.tolist())
    if isinstance(x, (frozenset, set)):
        return sorted(to_jsonable(i) for i in x)
    return x


def from_jsonable(x):
    """lists -> tuples, special floats back."""
    if isinstance(x, list):
        return tuple(from_jsonable(i) for i in x)
    if isinstance(x, dict):
        return {k: from_jsonable(v) for k, v in x.items()}
    if x == "inf":
        return float("inf")
    if x == "-inf":
        return float("-inf")
    if x == "nan":
        return float("nan")
    return x


def case_hash(case):
    s = json.dumps(to_jsonable(case), sort_keys=True, default=str)
    return hashlib.sha1(s.encode()).hexdigest()[:16]


def innermost_funsor_frame(exc):
    """(exception type, innermost frame inside the funsor package)."""
    import traceback

    tb = traceback.extract_tb(exc.__traceback__)
    where = "?"
    for fr in tb:
        if "/funsor/" in fr.filename:
            where = fr.filename.split("/funsor/")[-1] + ":" + fr.name
    return f"{type(exc).__name__}@{where}"


class Stats:
    """Per-shard statistics, merged by the parent."""

    def __init__(self):
        self.evaluations = 0
        self.nontrivial = set()  # hashes of distinct non-trivial cases
        self.classes = collections.Counter()
        self.declines = collections.Counter()
        self.samples = []
        self.violations = []  # dicts: bucket, message, case, known
        self.known = collections.Counter()
        self.notes = {}
        self.exhaustive = None
        self._sample_cap = 6

    # -- API used by property modules
    def count(self, label, n=1):
        self.classes[label] += n

    def decline(self, bucket):
        self.declines[bucket] += 1

    def mark_nontrivial(self, key):
        self.nontrivial.add(key)

    def sample(self, text):
        if len(self.samples) < self._sample_cap:
            self.samples.append(text)

    def dump(self):
        return dict(
            evaluations=self.evaluations,
            nontrivial=sorted(self.nontrivial),
            classes=dict(self.classes),
            declines=dict(self.declines),
            samples=self.samples,
            violations=self.violations,
            known=dict(self.known),
            notes=self.notes,
            exhaustive=self.exhaustive,
        )


class Prop:
    """Base class of a property engine.  Subclasses override what they need."""

    id = "C00"
    title = ""
    rule = ""
    assumptions = ()
    technique = ""
    # number of hypothesis cases for the whole run (split over shards)
    cases = {"quick": 1000, "thorough": 20000}

    def strategy(self, tier):
        return None

    def check(self, case, st):
        """Check one generated case; raise Violation; use st for statistics."""
        raise NotImplementedError

    def describe(self, case):
        return json.dumps(to_jsonable(case))[:400]

    def extra(self, tier, shard, nshards, st, seed):
        """Enumerated (non-hypothesis) part; may append to st.violations."""
        return None

    # known (open) findings: name -> predicate(case, violation) -> bool
    known_predicates = {}

    def shrink_candidates(self, case):
        """None (use Hypothesis' shrinker) or an iterable of smaller cases."""
        return None

    def finalize(self, coverage):
        """Parent-side hook: add derived fields to the coverage dict of the evidence file."""
        return None

    def signature(self, case):
        """Root-cause hint of a *shrunk* case (used to tell findings apart)."""
        return ""

    def excluded(self, case):
        """True when the case belongs to an open known-finding class and is
        excluded by construction (counted, not checked)."""
        return False


def robust_gen(fn, tries=8):
    """Seed-expanded generators are total functions of the seed: if a seed lands in an ill-typed corner of a
    generator (HarnessError while typing the draft), the next seeds are used instead."""
    import functools

    @functools.wraps(fn)
    def wrapped(seed):
        last = None
        for k in range(tries):
            try:
                return fn(seed + k * 7919)
            except Exception as e:  # noqa: BLE001
                last = e
        raise last

    return wrapped
