"""/verif/check <ID> --tier quick|thorough [--replay path]

Parent: spawns fresh worker processes (one per shard), merges their partial
results, replays regressions and known findings, writes the evidence file and
prints VIOLATION / KNOWN-FINDING lines.

Exit codes: 0 held, 1 violation, 2 harness error.
"""
import argparse
import importlib
import json
import os
import subprocess
import sys
import tempfile
import time
import traceback

ROOT = os.path.dirname(os.path.dirname(os.path.abspath(__file__)))
sys.path.insert(0, ROOT)

from vf.core import (  # noqa: E402
    Decline,
    HarnessError,
    Stats,
    Violation,
    case_hash,
    from_jsonable,
    to_jsonable,
)

PROPS = {f"C{n:02d}": f"vf.props.c{n:02d}" for n in range(1, 21)}


SHARD_ENV = {
    # C03 explores both reinterpreters and the type-checking interpreter: the flags are read at import
    "C03": lambda k: {"FUNSOR_USE_TCO": str(k % 2), "FUNSOR_TYPECHECK": str((k // 2) % 2)},
    # C06: every fourth shard runs with the optional re-check of declared types under reflect switched on
    "C06": lambda k: {"FUNSOR_TYPECHECK": "1" if k % 4 == 3 else "0"},
}


def shard_env(pid, k):
    f = SHARD_ENV.get(pid)
    return f(k) if f else {}


def load_prop(pid):
    mod = importlib.import_module(PROPS[pid])
    return mod.PROP


def assert_repo_funsor():
    import funsor

    path = os.path.realpath(funsor.__file__)
    want = os.path.realpath(os.environ.get("VERIF_REPO", "/repo"))
    if not path.startswith(want + os.sep):
        raise HarnessError(f"funsor imported from {path}, expected under {want}")
    funsor.set_backend("numpy")


def known_findings():
    p = os.path.join(ROOT, "known_findings.json")
    if not os.path.exists(p):
        return []
    return json.load(open(p)).get("findings", [])


# --------------------------------------------------------------------------
# worker


def _reset_interpretation_stack():
    try:
        import funsor.interpretations as I
        from funsor import interpreter

        interpreter._STACK[:] = [I.reflect, I.eager]
    except Exception:
        pass


class CaseTimeout(BaseException):
    pass


def _alarm(signum, frame):
    raise CaseTimeout()


def run_one(prop, case, st):
    """Run prop.check on a case.  Returns None or a Violation.  A case that does not finish within
    CASE_TIMEOUT seconds (non-terminating rewriting, huge term) is inconclusive: counted as a decline."""
    import signal

    signal.signal(signal.SIGALRM, _alarm)
    # repeating timer: an exception raised inside a GC / weakref callback is swallowed by the
    # interpreter, so keep raising every 5 s until it lands in ordinary code
    signal.setitimer(signal.ITIMER_REAL, float(os.environ.get("VERIF_CASE_TIMEOUT", "30")), 5.0)
    try:
        try:
            prop.check(case, st)
        finally:
            signal.setitimer(signal.ITIMER_REAL, 0)
    except CaseTimeout:
        st.decline("timeout(no verdict)")
        _reset_interpretation_stack()
        return None
    except RecursionError:
        st.decline("recursion-limit(no verdict)")
        _reset_interpretation_stack()
        return None
    except MemoryError:
        # the worker's address space is capped (VERIF_MEM_GB); a case that needs more is inconclusive
        st.decline("memory-limit(no verdict)")
        _reset_interpretation_stack()
        import gc

        gc.collect()
        return None
    except Violation as v:
        return v
    except Decline as d:
        st.decline(d.bucket)
    except HarnessError:
        raise
    except Exception as e:
        # an exception raised inside funsor that the engine did not classify is a
        # decline of funsor (never a violation); anything else is a harness bug.
        import traceback

        tb = traceback.extract_tb(e.__traceback__)
        if tb and "/funsor/" in tb[-1].filename:
            from vf.core import innermost_funsor_frame

            st.decline("uncaught:" + innermost_funsor_frame(e))
        else:
            raise
    return None


def match_known(prop, case, v, open_names):
    for name in open_names:
        pred = prop.known_predicates.get(name)
        if pred is not None:
            try:
                if pred(case, v):
                    return name
            except Exception:
                pass
    return None


def worker(args):
    import warnings

    warnings.simplefilter("ignore")
    import numpy as np

    np.seterr(all="ignore")
    assert_repo_funsor()
    try:
        import resource

        cap = int(float(os.environ.get("VERIF_MEM_GB", "3")) * 2**30)
        resource.setrlimit(resource.RLIMIT_AS, (cap, cap))
    except Exception:  # noqa: BLE001
        pass
    import hypothesis
    from hypothesis import HealthCheck, Phase, given, settings

    prop = load_prop(args.id)
    seed = args.seed * 1000 + args.shard
    st = Stats()
    open_names = [
        f["name"]
        for f in known_findings()
        if f.get("property") == args.id and f.get("status") == "open"
    ]
    t0 = time.time()

    # 1. enumerated part
    try:
        prop.extra(args.tier, args.shard, args.nshards, st, args.seed)
    except Violation as v:
        st.violations.append(
            dict(bucket=v.bucket, message=v.message, case={"extra": v.message})
        )

    # 2. hypothesis, collect mode
    strat = prop.strategy(args.tier)
    total = args.cases if args.cases else prop.cases[args.tier]
    n = max(1, (total + args.nshards - 1) // args.nshards)
    found = {}  # bucket -> (size, case)
    budget = args.max_wall

    class Stop(BaseException):
        pass

    if strat is not None:

        def body(case):
            if time.time() - t0 > budget:
                st.notes["budget_exhausted"] = True
                raise Stop()
            if prop.excluded(case):
                st.known["excluded-by-construction"] += 1
                return
            st.evaluations += 1
            v = run_one(prop, case, st)
            if v is not None:
                k = match_known(prop, case, v, open_names)
                if k:
                    st.known[k] += 1
                    return
                size = len(json.dumps(to_jsonable(case), default=str))
                lst = found.setdefault(v.bucket, [])
                lst.append((size, case, v.message))
                lst.sort(key=lambda t: t[0])
                del lst[4:]
            elif len(st.samples) < st._sample_cap and st.evaluations % 7 == 1:
                st.sample(prop.describe(case))

        test = settings(
            max_examples=n,
            database=None,
            deadline=None,
            derandomize=False,
            report_multiple_bugs=False,
            phases=[Phase.generate],
            suppress_health_check=list(HealthCheck),
        )(hypothesis.seed(seed)(given(strat)(body)))
        try:
            test()
        except Stop:
            pass

        # 3. shrink each bucket (bounded)
        flat = [(b, t) for b, lst in list(found.items())[:4] for t in lst]
        sigs = set()
        for bucket, (size, case0, msg0) in flat:
            best = {"case": case0, "size": size, "msg": msg0}
            t1 = time.time()
            # one shrinking budget per shard, shared by the failing cases kept (VERIF_NO_SHRINK=1: report unshrunk cases)
            total = 0 if os.environ.get("VERIF_NO_SHRINK") else (30 if args.tier == "quick" else 300)
            shrink_budget = total / max(1, len(flat))
            if prop.shrink_candidates(case0) is not None:
                # greedy structural shrinking with the property's own candidates
                cur, msg = case0, msg0
                improved = True
                while improved and time.time() - t1 < shrink_budget:
                    improved = False
                    for cand in prop.shrink_candidates(cur):
                        if time.time() - t1 > shrink_budget:
                            break
                        if prop.excluded(cand):
                            continue
                        try:
                            v = run_one(prop, cand, Stats())
                        except Exception:
                            continue
                        if v is not None and v.bucket == bucket and not match_known(prop, cand, v, open_names):
                            cur, msg, improved = cand, v.message, True
                            break
                sig = bucket + "|" + str(prop.signature(cur))
                if sig not in sigs:
                    sigs.add(sig)
                    st.violations.append(dict(bucket=sig, message=msg, case=to_jsonable(cur)))
                continue

            def body2(case, bucket=bucket, best=best, t1=t1):
                if time.time() - t1 > shrink_budget:
                    raise Stop()
                if prop.excluded(case):
                    return
                v = run_one(prop, case, Stats())
                if v is not None and v.bucket == bucket:
                    if match_known(prop, case, v, open_names):
                        return
                    size = len(json.dumps(to_jsonable(case), default=str))
                    if size <= best["size"]:
                        best.update(case=case, size=size, msg=v.message)
                    raise AssertionError(bucket)

            test2 = settings(
                max_examples=n,
                database=None,
                deadline=None,
                derandomize=False,
                report_multiple_bugs=False,
                phases=[Phase.generate, Phase.shrink],
                suppress_health_check=list(HealthCheck),
            )(hypothesis.seed(seed)(given(strat)(body2)))
            try:
                test2()
            except (Stop, AssertionError):
                pass
            except Exception:
                pass
            st.violations.append(
                dict(bucket=bucket, message=best["msg"], case=to_jsonable(best["case"]))
            )
    st.notes["wall_s"] = time.time() - t0
    with open(args.out, "w") as f:
        json.dump(st.dump(), f, default=str)
    return 0


# --------------------------------------------------------------------------
# replay


def replay_file(prop, path):
    """Returns (violation or None)."""
    doc = json.load(open(path))
    case = from_jsonable(doc["case"])
    st = Stats()
    return run_one(prop, case, st)


def replay_main(args):
    import warnings

    warnings.simplefilter("ignore")
    import numpy as np

    np.seterr(all="ignore")
    assert_repo_funsor()
    prop = load_prop(args.id)
    v = replay_file(prop, args.replay)
    if v is not None:
        print(f"VIOLATION property={args.id} replay={args.replay}")
        print(f"  {v.bucket}: {v.message}")
        return 1
    print(f"replay {args.replay}: property {args.id} holds on this case")
    return 0


# --------------------------------------------------------------------------
# parent


def parent(args):
    t0 = time.time()
    prop_mod = PROPS[args.id]
    nshards = args.nshards
    tmp = tempfile.mkdtemp(prefix=f"vf-{args.id}-", dir=os.path.join(ROOT, "out"))
    procs = []
    env = dict(os.environ)
    env["PYTHONHASHSEED"] = "0"
    env["PYTHONPATH"] = ROOT + os.pathsep + env.get("PYTHONPATH", "")
    env.setdefault("OMP_NUM_THREADS", "1")
    env.setdefault("OPENBLAS_NUM_THREADS", "1")
    env.setdefault("MKL_NUM_THREADS", "1")
    for k in range(nshards):
        out = os.path.join(tmp, f"shard{k}.json")
        cmd = [
            sys.executable,
            "-m",
            "vf.runner",
            args.id,
            "--tier",
            args.tier,
            "--shard",
            str(k),
            "--nshards",
            str(nshards),
            "--seed",
            str(args.seed),
            "--out",
            out,
            "--max-wall",
            str(args.max_wall),
        ]
        if args.cases:
            cmd += ["--cases", str(args.cases)]
        log = open(os.path.join(tmp, f"shard{k}.log"), "w")
        env_k = dict(env)
        env_k.update(shard_env(args.id, k))
        procs.append((k, out, log, subprocess.Popen(cmd, env=env_k, stdout=log, stderr=log, cwd=ROOT)))
    merged = Stats()
    harness_errors = []
    hard_limit = t0 + args.max_wall + 180
    killed = 0
    for k, out, log, p in procs:
        try:
            rc = p.wait(timeout=max(1.0, hard_limit - time.time()))
        except subprocess.TimeoutExpired:
            # a shard stuck in non-interruptible code: inconclusive, not a verdict
            p.kill()
            p.wait()
            killed += 1
            log.close()
            continue
        log.close()
        if rc != 0 or not os.path.exists(out):
            tail = open(log.name).read()[-3000:]
            harness_errors.append(f"shard {k} rc={rc}\n{tail}")
            continue
        d = json.load(open(out))
        merged.evaluations += d["evaluations"]
        merged.nontrivial.update(d["nontrivial"])
        merged.classes.update(d["classes"])
        merged.declines.update(d["declines"])
        merged.known.update(d["known"])
        for s in d["samples"]:
            if len(merged.samples) < 10:
                merged.samples.append(s)
        merged.violations.extend(d["violations"])
        for kk, vv in d["notes"].items():
            if kk == "wall_s":
                merged.notes["max_shard_wall_s"] = max(merged.notes.get("max_shard_wall_s", 0), vv)
            elif kk.startswith("max_"):
                merged.notes[kk] = max(merged.notes.get(kk, vv), vv)
            elif isinstance(vv, (int, float)) and not isinstance(vv, bool):
                merged.notes[kk] = merged.notes.get(kk, 0) + vv
            elif isinstance(vv, list):
                merged.notes.setdefault(kk, [])
                for item in vv:
                    if item not in merged.notes[kk]:
                        merged.notes[kk].append(item)
            else:
                merged.notes[kk] = vv
        if d.get("exhaustive"):
            merged.exhaustive = True
    if killed:
        merged.notes["shards_killed_after_hard_limit(inconclusive)"] = killed
    if harness_errors:
        print("HARNESS ERROR", file=sys.stderr)
        for h in harness_errors[:3]:
            print(h, file=sys.stderr)
        return 2

    # in-process part: regressions and known findings
    import warnings

    warnings.simplefilter("ignore")
    import numpy as np

    np.seterr(all="ignore")
    assert_repo_funsor()
    prop = load_prop(args.id)
    out_lines = []
    nviol = 0
    regdir = os.path.join(ROOT, "regressions", args.id)
    nreg = 0
    if os.path.isdir(regdir):
        for fn in sorted(os.listdir(regdir)):
            if fn.endswith(".json"):
                nreg += 1
                path = os.path.join(regdir, fn)
                try:
                    v = replay_file(prop, path)
                except Exception:
                    print(f"HARNESS ERROR replaying {path}", file=sys.stderr)
                    traceback.print_exc()
                    return 2
                if v is not None:
                    nviol += 1
                    out_lines.append(f"VIOLATION property={args.id} replay={os.path.relpath(path, ROOT)}")
                    out_lines.append(f"  regression {v.bucket}: {v.message}"[:600])
    for f in known_findings():
        if f.get("property") == args.id and f.get("status") == "open":
            path = os.path.join(ROOT, f["replay"])
            v = replay_file(prop, path)
            if v is not None:
                out_lines.append(f"KNOWN-FINDING: property={args.id} {f['what']}")
            else:
                out_lines.append(
                    f"note: known finding {f['name']} no longer reproduces from {f['replay']}"
                )

    # dedupe violations by bucket
    by_bucket = {}
    for v in merged.violations:
        b = v["bucket"]
        size = len(json.dumps(v["case"], default=str))
        if b not in by_bucket or size < by_bucket[b][0]:
            by_bucket[b] = (size, v)
    repdir = os.path.join(ROOT, "out", "replays")
    os.makedirs(repdir, exist_ok=True)
    for b, (size, v) in sorted(by_bucket.items()):
        nviol += 1
        h = case_hash([b, v["case"]])
        path = os.path.join(repdir, f"{args.id}-{h}.json")
        with open(path, "w") as fh:
            json.dump(dict(property=args.id, bucket=b, message=v["message"], case=v["case"]), fh, indent=1, default=str)
        out_lines.append(f"VIOLATION property={args.id} replay={os.path.relpath(path, ROOT)}")
        out_lines.append(f"  {b}: {v['message']}"[:800])

    wall = time.time() - t0
    cov = dict(
        evaluations=int(merged.evaluations),
        distinct_nontrivial=len(merged.nontrivial),
        rule=prop.rule,
        samples=merged.samples[:10] or ["(none)"],
        classes=dict(sorted(merged.classes.items(), key=lambda kv: -kv[1])[:80]),
        declines=dict(sorted(merged.declines.items(), key=lambda kv: -kv[1])[:40]),
        known_or_excluded=dict(merged.known),
        regressions_replayed=nreg,
        shards=nshards,
        notes=merged.notes,
        tolerance="|a-b| <= 1e-8 + 1e-6*max(|a|,|b|), infinities exact",
    )
    if merged.exhaustive:
        cov["exhaustive_subspace"] = True
    try:
        prop.finalize(cov)
    except Exception:
        traceback.print_exc()
    ev = dict(
        property_id=args.id,
        tier=args.tier,
        seed=int(args.seed),
        level="exploration",
        coverage=cov,
        assumptions=list(prop.assumptions),
        wall_s=round(wall, 2),
        violations=nviol,
    )
    # VERIF_EVIDENCE_DIR: sensitivity runs against a deliberately broken tree must not overwrite the committed evidence
    evdir = os.environ.get("VERIF_EVIDENCE_DIR") or os.path.join(ROOT, "evidence")
    os.makedirs(evdir, exist_ok=True)
    with open(os.path.join(evdir, f"{args.id}.json"), "w") as fh:
        json.dump(ev, fh, indent=1, default=str)
    for line in out_lines:
        print(line)
    print(
        f"{args.id} {args.tier}: evaluations={merged.evaluations} distinct_nontrivial={len(merged.nontrivial)} "
        f"declines={sum(merged.declines.values())} known/excluded={sum(merged.known.values())} "
        f"violations={nviol} wall={wall:.1f}s"
    )
    # clean shard files
    import shutil

    shutil.rmtree(tmp, ignore_errors=True)
    return 1 if nviol else 0


def main():
    ap = argparse.ArgumentParser()
    ap.add_argument("id")
    ap.add_argument("--tier", default=os.environ.get("VERIF_TIER", "quick"), choices=["quick", "thorough"])
    ap.add_argument("--replay")
    ap.add_argument("--shard", type=int)
    ap.add_argument("--nshards", type=int, default=int(os.environ.get("VERIF_SHARDS", "16")))
    ap.add_argument("--seed", type=int, default=int(os.environ.get("VERIF_SEED", "1")))
    ap.add_argument("--out")
    ap.add_argument("--cases", type=int, default=0)
    ap.add_argument("--max-wall", type=float, default=0)
    args = ap.parse_args()
    if args.id not in PROPS:
        print(f"unknown property {args.id}", file=sys.stderr)
        return 2
    if not args.max_wall:
        args.max_wall = 150 if args.tier == "quick" else 1500
    os.makedirs(os.path.join(ROOT, "out"), exist_ok=True)
    try:
        if args.replay:
            return replay_main(args)
        if args.shard is not None:
            return worker(args)
        return parent(args)
    except Exception:
        traceback.print_exc()
        return 2


if __name__ == "__main__":
    sys.exit(main())
