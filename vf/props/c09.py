"""C09 — plated sum-product equals brute-force unrolling."""
import itertools

import numpy as np
from hypothesis import strategies as st

from vf.core import Decline, Prop, Violation, case_hash, innermost_funsor_frame
from vf.lang import close
from vf.props.c10 import SEMIRINGS, expand, funsor_ops, np_ops

VARS = ["a", "b", "c", "d"]
PLATES = ["i", "j", "k"]
ALGOS = ["sum_product", "partial", "two_calls", "modified", "dynamic", "einsum", "naive_einsum"]
EINSUM_BACKEND = {"add_mul": "numpy", "logaddexp_add": "funsor.einsum.numpy_log", "max_add": "funsor.einsum.numpy_map"}
MAX_JOINT = 100000
TEMPLATES = [
    (("a", "i"), ("b", "j"), ("a", "b", "i", "j")),
    (("a", "i", "k"), ("b", "j", "k"), ("a", "b", "i", "j", "k")),
    (("a",), ("a", "b", "i"), ("b", "c", "i", "j")),
    (("a", "i"), ("a", "b", "i", "j"), ("b", "j")),
    (("a",), ("a", "i"), ("a", "i", "j"), ("i", "j")),
    (("a", "b"), ("b", "i"), ("b", "c", "i"), ("c", "i", "j")),
    # components that stay separate until a late factor bridges three or more of them at once
    (("a",), ("b",), ("c",), ("a", "b", "c")),
    (("a", "i"), ("b", "i"), ("c", "i"), ("a", "b", "c", "i")),
    (("a",), ("b",), ("c",), ("d",), ("b", "c", "d"), ("a", "d")),
    (("a", "i"), ("b",), ("c", "i", "j"), ("d", "j"), ("a", "b", "c", "i")),
    (("c",), ("a",), ("b", "i"), ("a", "b", "c", "i"), ("a", "i")),
    # sibling plates nested in a third one: a variable whose ordinal ({i}) is the plate set of no factor, next to a
    # shallower factor sharing another variable with the deep ones
    (("a", "b", "i", "j"), ("a", "i", "k"), ("b",)),
    (("a", "b", "i", "j"), ("a", "i", "k"), ("b", "i")),
    (("a", "i", "j"), ("a", "b", "i", "k"), ("b", "c"), ("c",)),
    (("a", "c", "i", "j"), ("a", "b", "i", "k"), ("b", "c"), ("c", "i")),
    # crossing (non-nested) plates with no factor at the shared level
    (("a", "i"), ("a", "j", "k")),
    (("a", "i"), ("a", "j")),
    (("a", "i"), ("b", "j"), ("a", "i", "j"), ("b", "i", "j")),
    (("a", "i"), ("b", "j"), ("a", "b", "i", "j"), ("b", "i", "j")),
    (("a", "i", "k"), ("a", "j"), ("b", "j", "k"), ("b",)),
]


def case_strategy(tier):
    @st.composite
    def _s(draw):
        R = lambda lo, hi: draw(st.sampled_from(range(lo, hi + 1)))  # noqa: E731
        nv, npl = R(1, 4 if tier == "thorough" else 3), R(0, 3)
        vs, pls = VARS[:nv], PLATES[:npl]
        sizes = {n: R(1, 3) for n in vs + pls}
        nf = R(2, 5 if tier == "thorough" else 4) if R(0, 9) < 9 else 1
        factors = []
        for _ in range(nf):
            names = [n for n in vs + pls if R(0, 9) < 6]
            if not any(n in vs for n in names) and draw(st.booleans()):
                names.append(draw(st.sampled_from(vs)))
            names = draw(st.permutations(names)) if names else []
            factors.append(list(names))
        if R(0, 9) < 3:
            # structural templates: crossing / nested plates, late bridges (rare under uniform generation)
            factors = [list(f) for f in draw(st.sampled_from(TEMPLATES))]
            if R(0, 1):
                factors = [list(draw(st.permutations(f))) for f in factors]
            vs = sorted({n for f in factors for n in f if n in VARS})
            pls = sorted({n for f in factors for n in f if n in PLATES})
            sizes = {n: R(1, 2) for n in vs + pls}
        present = sorted({n for f in factors for n in f})
        elim = [n for n in present if R(0, 9) < 8] if R(0, 3) else list(present)
        if R(0, 9) == 0:
            # only plates (or nothing) are eliminated; other declared plates stay as inputs
            elim = [n for n in present if n in pls and R(0, 1)]
        if R(0, 1):
            scales = {}
        else:
            scales = {p: R(2, 3) for p in pls if p in elim}
        algo = draw(st.sampled_from(ALGOS))
        sem = draw(st.sampled_from(SEMIRINGS))
        real = R(0, 4) == 0
        # keep the case inside what the chosen algorithm accepts (otherwise it is only counted as a decline)
        if algo in ("einsum", "naive_einsum"):
            scales, real = {}, False
            if sem not in EINSUM_BACKEND:
                sem = draw(st.sampled_from(sorted(EINSUM_BACKEND)))
        elif algo in ("modified", "dynamic", "two_calls"):
            scales = {}
        if R(0, 9) < 9:
            # a kept variable inside an eliminated plate has no defined meaning: eliminate it as well
            epl = {p for p in pls if p in elim}
            for v in vs:
                fs_v = [f for f in factors if v in f]
                if v not in elim and fs_v and set.intersection(*[set(f) & epl for f in fs_v]):
                    elim = elim + [v]
        split = [n for n in elim if draw(st.booleans())]
        return dict(
            sem=sem, sizes=sizes, plates=pls, factors=factors, elim=elim, scales=scales,
            algo=algo, split=split, real=real, pedantic=R(0, 5) == 0, a=R(0, 9973), b=R(1, 97),
        )

    return _s()


def factor_data(case):
    out = []
    for i, names in enumerate(case["factors"]):
        shape = [case["sizes"][n] for n in names]
        n = int(np.prod(shape)) if shape else 1
        out.append(expand(case["a"] + 31 * i, case["b"], n).reshape(shape))
    return out


def ordinals(case, elim_pl):
    ordv = {}
    for names in case["factors"]:
        o = frozenset(n for n in names if n in elim_pl)
        for v in names:
            if v not in case["plates"]:
                ordv[v] = ordv.get(v, o) & o
    return ordv


def brute(case, datas, rval):
    """Unrolled joint.  Returns (out_names, table) or None when the semantics is
    undefined (kept variable inside an eliminated plate) / too large."""
    S, P = np_ops(case["sem"])
    plates = set(case["plates"])
    elim = set(case["elim"])
    sizes = dict(case["sizes"])
    factors = [list(f) for f in case["factors"]]
    datas = [np.array(d) for d in datas]
    if rval is not None:
        datas[0] = P(datas[0], rval)
    elim_pl = plates & elim
    # integer plate scales == replicating the plate
    for p, s in case["scales"].items():
        if p in elim_pl:
            for fi, names in enumerate(factors):
                if p in names:
                    ax = names.index(p)
                    datas[fi] = np.concatenate([datas[fi]] * s, axis=ax)
            sizes[p] = sizes[p] * s
    ordv = ordinals(case, elim_pl)
    allnames = sorted({n for f in factors for n in f})
    vars_ = [n for n in allnames if n not in plates]
    kept_pl = [n for n in allnames if n in plates and n not in elim_pl]
    kept_vars = [v for v in vars_ if v not in elim]
    if any(ordv[v] for v in kept_vars):
        return None
    out_names = kept_pl + kept_vars
    elim_vars = [v for v in vars_ if v in elim]
    copies = []
    for v in elim_vars:
        pls = sorted(ordv[v])
        for idx in itertools.product(*[range(sizes[p]) for p in pls]):
            copies.append((v, tuple(zip(pls, idx))))
    njoint = 1
    for v, _ in copies:
        njoint *= sizes[v]
    ninst = sum(int(np.prod([sizes[p] for p in names if p in elim_pl])) for names in factors)
    nout = int(np.prod([sizes[n] for n in out_names])) if out_names else 1
    if njoint * nout * max(1, ninst) > MAX_JOINT * 20 or njoint > MAX_JOINT:
        return "too-large"
    out = np.zeros([sizes[n] for n in out_names])
    copy_index = {c: i for i, c in enumerate(copies)}
    # pre-compute factor instances: list of (data, index-template)
    insts = []
    for names, data in zip(factors, datas):
        fpl = [n for n in names if n in elim_pl]
        for pidx in itertools.product(*[range(sizes[p]) for p in fpl]):
            pa = dict(zip(fpl, pidx))
            tmpl = []
            for n in names:
                if n in elim_pl:
                    tmpl.append(("c", pa[n]))
                elif n in out_names:
                    tmpl.append(("o", out_names.index(n)))
                else:
                    key = (n, tuple((p, pa[p]) for p in sorted(ordv[n])))
                    tmpl.append(("v", copy_index[key]))
            insts.append((data, tmpl))
    for oidx in itertools.product(*[range(sizes[n]) for n in out_names]):
        acc = None
        for cvals in itertools.product(*[range(sizes[v]) for v, _ in copies]):
            prod = None
            for data, tmpl in insts:
                ix = tuple(v if k == "c" else (oidx[v] if k == "o" else cvals[v]) for k, v in tmpl)
                val = data[ix]
                prod = val if prod is None else P(prod, val)
            acc = prod if acc is None else S(acc, prod)
        out[oidx] = acc
    return out_names, out


class C09(Prop):
    id = "C09"
    rule = (
        "random plated factor graphs: <=4 (quick) / <=5 factors, <=3/4 discrete variables and <=3 plates of sizes 1-3, arbitrary (also "
        "crossing) plate sets per factor, any eliminate subset, integer plate scales, optional real parameter, six semirings; algorithms: "
        "sum_product, partial_sum_product (one call, and two successive calls over a valid split), modified/dynamic variants with empty "
        "steps, plated einsum and naive_plated_einsum; oracle = fully unrolled joint (each variable replicated per index of the eliminated "
        "plates it lives in; integer plate scale = plate replication); a ValueError/NotImplementedError is a decline; pedantic graphs must "
        "raise; non-trivial = >=2 factors sharing a variable and >=1 eliminated plate containing an eliminated variable"
    )
    assumptions = (
        "brute-force oracle (50 lines of numpy/itertools) capped at 1e5 joint assignments",
        "graphs with a kept variable inside an eliminated plate have no defined value (upstream marks it 'unclear semantics') and are only used with pedantic=True, which must raise",
        "integer plate scales only (exactly representable as plate replication)",
    )
    cases = {"quick": 3200, "thorough": 60000}

    def strategy(self, tier):
        return case_strategy(tier)

    def extra(self, tier, shard, nshards, stt, seed):
        """Small-scope enumeration: every structural template x every algorithm x three semirings, everything eliminated,
        sizes 2 (and one assignment of mixed sizes drawn from the seed)."""
        k = 0
        sems = ["add_mul", "logaddexp_add", "max_add"] if tier == "quick" else list(SEMIRINGS)
        for ti, tpl in enumerate(TEMPLATES):
            names = sorted({n for f in tpl for n in f})
            for algo in ALGOS:
                for sem in sems:
                    for variant in range(2):
                        k += 1
                        if k % nshards != shard:
                            continue
                        if algo in ("einsum", "naive_einsum") and sem not in EINSUM_BACKEND:
                            continue
                        if variant == 0:
                            sizes = {n: 2 for n in names}
                        else:
                            sizes = {n: 1 + (seed * 7 + ti * 5 + 3 * j + ord(n)) % 3 for j, n in enumerate(names)}
                        case = dict(sem=sem, sizes=sizes, plates=[n for n in names if n in PLATES], factors=[list(f) for f in tpl], elim=list(names),
                                    scales={}, algo=algo, split=[n for j, n in enumerate(names) if (j + ti + variant) % 2], real=False, pedantic=False,
                                    a=(seed * 131 + ti * 17 + variant) % 9973, b=1 + (seed + ti) % 96)
                        stt.evaluations += 1
                        try:
                            self.check(case, stt)
                        except Decline as d:
                            stt.decline(d.bucket)
                        except Violation as v:
                            sig = v.bucket + "|template|" + self.signature(case)
                            if not any(x["bucket"] == sig for x in stt.violations) and len(stt.violations) < 6:
                                stt.violations.append(dict(bucket=sig, message=v.message, case=case))
        stt.notes["templates_enumerated"] = len(TEMPLATES)

    def describe(self, case):
        return str({k: v for k, v in case.items() if k not in ("a", "b")})

    def signature(self, case):
        return f"{case['algo']}|plates={len(set(case['plates']) & set(case['elim']))}|scales={bool(case['scales'])}|real={case['real']}"

    def shrink_candidates(self, case):
        nf = len(case["factors"])
        for i in range(nf):
            if nf > 1:
                yield dict(case, factors=[f for j, f in enumerate(case["factors"]) if j != i])
        for i, f in enumerate(case["factors"]):
            for n in f:
                yield dict(case, factors=[[m for m in g if m != n] if j == i else g for j, g in enumerate(case["factors"])])
        for n in case["elim"]:
            yield dict(case, elim=[m for m in case["elim"] if m != n], split=[m for m in case["split"] if m != n])
        for n, s in case["sizes"].items():
            if s > 1:
                yield dict(case, sizes=dict(case["sizes"], **{n: s - 1}))
        if case["scales"]:
            yield dict(case, scales={})
        if case["real"]:
            yield dict(case, real=False)
        if case["sem"] != "add_mul":
            yield dict(case, sem="add_mul")

    def check(self, case, stt):
        from collections import OrderedDict

        from funsor import Bint, Number, Real, Tensor, Variable
        from funsor.einsum import einsum, naive_plated_einsum
        from funsor.sum_product import (
            dynamic_partial_sum_product,
            modified_partial_sum_product,
            partial_sum_product,
            sum_product,
        )
        from vf.build import eval_at

        case = dict(case)
        case["scales"] = {k: int(v) for k, v in dict(case["scales"]).items()}
        present = {n for f in case["factors"] for n in f}
        case["elim"] = [n for n in case["elim"] if n in present]
        case["split"] = [n for n in case["split"] if n in case["elim"]]
        plates = frozenset(case["plates"])
        elim = frozenset(case["elim"])
        S, P = funsor_ops(case["sem"])
        datas = factor_data(case)
        fs = [Tensor(d, OrderedDict((n, Bint[case["sizes"][n]]) for n in names)) for names, d in zip(case["factors"], datas)]
        if len({id(f) for f in fs}) != len(fs):
            raise Decline("duplicate-factor-objects")
        if case["real"]:
            fs[0] = P(fs[0], Variable("r", Real))
        algo = case["algo"]
        stt.count("algo:" + algo)
        elim_pl = plates & elim
        ordv = ordinals(case, elim_pl)
        kept_in_plate = [v for v in ordv if v not in elim and ordv[v]]
        scales = dict(case["scales"]) or None

        if kept_in_plate:
            if case["pedantic"]:
                try:
                    sum_product(S, P, fs, elim, plates, pedantic=True)
                except ValueError:
                    stt.count("pedantic-raised")
                    stt.mark_nontrivial(case_hash(case))
                    return
                except Exception as e:
                    raise Decline("pedantic-other:" + innermost_funsor_frame(e))
                raise Violation("pedantic-did-not-raise", f"kept variables {kept_in_plate} inside eliminated plates: {self.describe(case)}")
            raise Decline("undefined-semantics(kept var in eliminated plate)")

        def run():
            if algo == "sum_product":
                return sum_product(S, P, fs, elim, plates, plate_to_scale=scales)
            if algo == "partial":
                parts = partial_sum_product(S, P, fs, elim, plates, plate_to_scale=scales)
                r = Number(1.0 if case["sem"].endswith("mul") else 0.0)
                for p in parts:
                    r = P(r, p)
                return r
            if algo == "two_calls":
                e1 = set(case["split"])
                # valid split (closure): (1) a plate goes first only together with every eliminated
                # variable living in it; (2) a variable goes first only together with every eliminated
                # plate of a factor mentioning it in which the variable does NOT live (that plate has
                # to be product-reduced before the variable can be summed out).
                changed = True
                while changed:
                    changed = False
                    for p in list(e1 & elim_pl):
                        new = {v for v, o in ordv.items() if p in o and v in elim} - e1
                        if new:
                            e1 |= new
                            changed = True
                    for v in [v for v in e1 if v in ordv]:
                        for names in case["factors"]:
                            if v in names:
                                new = {p for p in names if p in elim_pl and p not in ordv[v]} - e1
                                if new:
                                    e1 |= new
                                    changed = True
                e1 = frozenset(e1)
                e2 = elim - e1
                if scales and e1 and e2:
                    raise Decline("two-calls-with-scales-not-generated")
                parts = partial_sum_product(S, P, fs, e1, plates, plate_to_scale=scales)
                return sum_product(S, P, parts, e2, plates, plate_to_scale=scales)
            if algo in ("modified", "dynamic"):
                if scales:
                    raise Decline("no-scales-in-variant")
                fn = modified_partial_sum_product if algo == "modified" else dynamic_partial_sum_product
                p2s = {p: ({} if algo == "modified" else frozenset()) for p in elim_pl}
                # non-eliminated plates are ordinary inputs
                parts = fn(S, P, fs, elim, p2s)
                r = Number(1.0 if case["sem"].endswith("mul") else 0.0)
                for p in parts:
                    r = P(r, p)
                return r
            backend = EINSUM_BACKEND.get(case["sem"])
            if backend is None or scales or case["real"]:
                raise Decline("einsum-not-applicable")
            out = "".join(n for n in sorted(present) if n not in elim)
            eqn = ",".join("".join(f) for f in case["factors"]) + "->" + out
            fn = einsum if algo == "einsum" else naive_plated_einsum
            return fn(eqn, *fs, plates="".join(sorted(plates & present)), backend=backend)

        try:
            r = run()
        except Decline:
            raise
        except Exception as e:
            raise Decline("raised:" + type(e).__name__ + ":" + str(e)[:24] + "@" + innermost_funsor_frame(e).split("@")[-1])
        for rval in ([None] if not case["real"] else [0.5, 1.25]):
            exp = brute(case, datas, rval)
            if exp is None:
                raise Decline("undefined-semantics")
            if exp == "too-large":
                raise Decline("oracle-too-large")
            names, table = exp
            extra = set(r.inputs) - set(names) - {"r"}
            if extra:
                raise Violation("extra-inputs", f"result inputs {sorted(r.inputs)}, expected among {names}: {self.describe(case)}")
            for idx in itertools.product(*[range(case["sizes"][n]) for n in names]):
                pt = dict(zip(names, idx))
                if rval is not None:
                    pt["r"] = np.asarray(rval)
                try:
                    got = eval_at(r, pt)
                except Decline:
                    raise
                except Exception as e:
                    raise Decline("binding-raised:" + innermost_funsor_frame(e))
                if not close(got, table[idx]):
                    raise Violation("wrong-value", f"at {pt}: {algo} gives {np.asarray(got).tolist()}, unrolled joint {table[idx]}: {self.describe(case)}")
        stt.count("completed")
        shared = any(sum(1 for f in case["factors"] if v in f) >= 2 for v in ordv)
        plated = any(ordv[v] for v in ordv if v in elim)
        if shared and plated:
            stt.mark_nontrivial(case_hash(case))
        if scales:
            stt.count("with-scales")


PROP = C09()
