"""C19 — conversions and re-alignment never move data to the wrong name."""
import itertools

import numpy as np
from hypothesis import strategies as st

from vf.core import robust_gen, Decline, Prop, Violation, case_hash, innermost_funsor_frame
from vf.gen import G, Opts, SeedSource, gauss_leaf, gen_expr
from vf.lang import Oracle, OutOfDomain, close, int_points, real_points, show, typeof

NAMES = ["a", "b", "c", "d", "e"]


def gen_case(seed):
    import random

    r = random.Random(seed)
    kind = r.choice(["convert", "convert", "convert", "align_tensor", "align_term", "align_gauss", "materialize", "align_tensors", "rename_onto", "arange"])
    if kind == "arange":
        # Tensor.new_arange with 1-4 arguments (also a stop beyond the dtype, an empty tail) against the lazy Slice it materialises
        nargs = r.randint(1, 4)
        dtype = r.randint(1, 6)
        start = r.randint(0, 3)
        stop = r.randint(0, 8)
        step = r.randint(1, 3)
        return dict(kind=kind, nargs=nargs, start=start, stop=stop, step=step, dtype=dtype, name=r.choice(NAMES), as_dtype_kw=r.random() < 0.3)
    if kind == "rename_onto":
        # lazy integer inputs (a Variable or a Slice) substituted for one input while another, unsubstituted input carries
        # the same name: the tensor must materialise the value as an index range (a diagonal); other inputs may be
        # substituted by numbers / renamed at the same time
        k = r.randint(2, 4)
        names = r.sample(NAMES, k)
        m = r.randint(1, 3)
        use_slice = r.random() < 0.5
        step = r.randint(1, 2) if use_slice else 1
        start = r.randint(0, 2) if use_slice else 0
        n = start + step * (m - 1) + 1 + (r.randint(0, 1) if use_slice else 0)
        i_src, i_dst = r.sample(range(k), 2)
        sizes = [r.randint(1, 3) for _ in range(k)]
        sizes[i_src], sizes[i_dst] = n, m
        others = []
        for j_ in range(k):
            if j_ not in (i_src, i_dst) and r.random() < 0.5:
                others.append([names[j_], r.choice(["num", "rename", "rename_same_size_onto_dst"])])
        return dict(kind=kind, names=names, sizes=sizes, src=names[i_src], dst=names[i_dst], slice=[start, step] if use_slice else None,
                    others=others, eshape=[r.randint(1, 2) for _ in range(r.randint(0, 1))], order=r.random() < 0.5, a=r.randrange(9973))
    if kind == "align_tensors":
        # several tensors over overlapping name sets listed in different orders (sizes coincide in half of the cases)
        k = r.randint(2, 3)
        pool = r.sample(NAMES, r.randint(2, 4))
        eq = r.random() < 0.5
        sizes = {n_: (2 if eq else r.randint(1, 3)) for n_ in pool}
        tensors = []
        for i_ in range(k):
            names = r.sample(pool, len(pool) if r.random() < 0.5 else r.randint(1, len(pool)))
            tensors.append(names)
        return dict(kind=kind, sizes=sorted(sizes.items()), tensors=tensors, eshape=[r.randint(1, 2) for _ in range(r.randint(0, 1))], expand=r.random() < 0.6, a=r.randrange(9973))
    if kind == "convert":
        rank = r.randint(0, 5)
        event = r.randint(0, min(2, rank))
        nb = rank - event
        names = r.sample(NAMES, nb)
        # batch dims: named (any size 1-4) or unnamed (must be size 1)
        shape, d2n = [], {}
        for i in range(nb):
            if r.random() < 0.7:
                shape.append(r.randint(1, 4))
                d2n[i - nb] = names[i]
            else:
                shape.append(1)
        eshape = [r.randint(1, 3) for _ in range(event)]
        if event == 0 and r.randint(0, 2) == 0:
            # dim_to_name may mention dims to the left of x's shape (to_data drops leading batch dims of size 1, so the
            # map of a round trip does): those names denote no dimension of x
            spare = [n_ for n_ in NAMES if n_ not in names]
            for j_ in range(r.randint(1, 2)):
                if j_ < len(spare):
                    d2n[-(nb + 1 + j_)] = spare[j_]
        return dict(kind=kind, shape=shape, eshape=eshape, d2n=sorted(d2n.items()), dtype=r.choice(["real", "real", 3, 5]), a=r.randrange(9973),
                    give_output=r.random() < 0.7, perm_seed=r.randrange(1000))
    if kind == "align_tensor":
        k = r.randint(1, 4)
        names = r.sample(NAMES, k)
        sizes = [r.randint(1, 4) for _ in range(k)]
        eshape = [r.randint(1, 2) for _ in range(r.randint(0, 2))]
        sel = r.sample(names, k if r.random() < 0.7 else r.randint(1, k))
        return dict(kind=kind, names=names, sizes=sizes, eshape=eshape, align=sel, a=r.randrange(9973))
    if kind in ("align_term", "materialize"):
        return dict(kind=kind, seed=r.randrange(2**30), mode=r.choice(["lazy", "reflect", "normalize"]), pick=r.randrange(1000))
    return dict(kind=kind, seed=r.randrange(2**30), pick=r.randrange(1000))


def fill(shape, a, dtype):
    n = int(np.prod(shape)) if shape else 1
    if dtype == "real":
        return (np.arange(n, dtype=float) * 0.25 + 0.125 * (a % 7)).reshape(shape)
    return ((np.arange(n) * 2 + a) % dtype).astype(np.int64).reshape(shape)


class C19(Prop):
    id = "C19"
    rule = (
        "(1) arrays of rank 0-5 (sizes 1-4), event rank 0-2, real or bounded-integer dtype, every subset of batch dimensions named through "
        "dim_to_name (unnamed ones of size 1), with and without an explicit output domain: to_funsor(x, out, dim_to_name) is compared element-wise at "
        "every named point with x at the index the map prescribes, and to_data(., inverse map) must return x up to size-1 batch dimensions; "
        "(2) align with every selection/permutation of <=4 inputs on Tensors (inputs order == names + rest, data == transposed array, value at every "
        "point), on lazy terms / Contractions (generated expressions) and on Gaussians; (3) Tensor.materialize of variables, Slices and lazy "
        "index expressions preserves the denoted function; non-trivial = rank>=2 with a permutation that is not the identity, or a dropped size-1 name"
    )
    assumptions = ("numpy indexing is the reference; lazy terms are evaluated with the reference evaluator vf/lang.py",)
    cases = {"quick": 5000, "thorough": 200000}

    def strategy(self, tier):
        return st.integers(0, 2**40).map(robust_gen(gen_case))

    def describe(self, case):
        return str(case)

    def signature(self, case):
        return case["kind"]

    def check(self, case, stt):
        stt.count("kind:" + case["kind"])
        return getattr(self, "check_" + case["kind"])(case, stt)

    def check_align_tensors(self, case, stt):
        from collections import OrderedDict

        from funsor import Bint, Tensor
        from funsor.tensor import align_tensors

        sizes = dict((k, v) for k, v in case["sizes"])
        eshape = tuple(case["eshape"])
        ts, datas = [], []
        for i_, names in enumerate(case["tensors"]):
            shape = tuple(sizes[n_] for n_ in names) + eshape
            data = fill(shape, case["a"] + 31 * i_, "real")
            datas.append(data)
            ts.append(Tensor(data, OrderedDict((n_, Bint[sizes[n_]]) for n_ in names)))
        try:
            inputs, raws = align_tensors(*ts, expand=case["expand"])
        except Exception as e:
            raise Decline("align_tensors-raised:" + innermost_funsor_frame(e))
        order = list(inputs)
        union = []
        for names in case["tensors"]:
            for n_ in names:
                if n_ not in union:
                    union.append(n_)
        if order != union:
            raise Violation("align_tensors-order", f"inputs {order}, expected first-occurrence order {union}: {self.describe(case)}")
        full = tuple(sizes[n_] for n_ in order) + eshape
        for names, data, raw in zip(case["tensors"], datas, raws):
            raw = np.asarray(raw)
            if case["expand"] and raw.shape != full:
                raise Violation("align_tensors-shape", f"expand=True returned shape {raw.shape}, expected {full}: {self.describe(case)}")
            try:
                big = np.broadcast_to(raw, full)
            except ValueError:
                raise Violation("align_tensors-shape", f"returned shape {raw.shape} does not broadcast to {full}: {self.describe(case)}")
            for idx in itertools.product(*[range(sizes[n_]) for n_ in order]):
                pt = dict(zip(order, idx))
                want = data[tuple(pt[n_] for n_ in names)]
                if not close(big[idx], want):
                    raise Violation("align_tensors-value", f"tensor over {names}: aligned data at {pt} is {np.asarray(big[idx]).tolist()}, the tensor holds {np.asarray(want).tolist()}: {self.describe(case)}")
        stt.count("completed")
        if any(list(names) != [n_ for n_ in order if n_ in names] for names in case["tensors"]):
            stt.mark_nontrivial(case_hash(case))

    def check_convert(self, case, stt):
        from funsor import Bint, Reals, to_data, to_funsor
        from funsor.domains import Array
        from vf.build import eval_at

        shape, eshape = list(case["shape"]), list(case["eshape"])
        dtype = case["dtype"]
        x = fill(tuple(shape + eshape), case["a"], dtype)
        import random as _random

        items = [(int(k), v) for k, v in case["d2n"]]
        _random.Random(case["perm_seed"]).shuffle(items)  # the listing order of the map must not matter
        d2n = dict(items)
        out = Array[dtype, tuple(eshape)]
        give = case["give_output"] or dtype != "real" or not d2n
        if not give:
            # without an explicit output the leftmost named dim decides the event shape (names to the left of x's own
            # dims denote nothing: then all of x's dims are batch dims)
            if -min(d2n) < len(shape) or (-min(d2n) > len(shape) and eshape):
                give = True
        try:
            f = to_funsor(x, out, d2n) if give else to_funsor(x, None, d2n)
        except Exception as e:
            raise Decline("to_funsor-raised:" + innermost_funsor_frame(e))
        nb = len(shape)
        named = {nb + k: v for k, v in d2n.items() if nb + k >= 0}  # batch position -> name
        kept = {pos: n for pos, n in named.items() if shape[pos] != 1}
        if set(f.inputs) != set(kept.values()):
            raise Violation("convert-inputs", f"inputs {list(f.inputs)} expected {sorted(kept.values())}: {self.describe(case)}")
        if tuple(f.output.shape) != tuple(eshape) or f.output.dtype != dtype:
            raise Violation("convert-output", f"output {f.output} expected {dtype}{eshape}: {self.describe(case)}")
        for pos, n in kept.items():
            if f.inputs[n].size != shape[pos]:
                raise Violation("convert-input-size", f"{n}: {f.inputs[n]} vs {shape[pos]}: {self.describe(case)}")
        names = [kept[p] for p in sorted(kept)]
        for idx in itertools.product(*[range(shape[p]) for p in sorted(kept)]):
            pt = dict(zip(names, idx))
            full = [0] * nb
            for p, i in zip(sorted(kept), idx):
                full[p] = i
            want = x[tuple(full)]
            got = eval_at(f, pt)
            if not close(got, want):
                raise Violation("convert-value", f"at {pt}: {np.asarray(got).tolist()} vs x{tuple(full)} = {np.asarray(want).tolist()}: {self.describe(case)}")
        # back: name -> dim
        n2d = {v: k for k, v in d2n.items() if v in f.inputs}
        try:
            back = to_data(f, n2d) if n2d else to_data(f)
        except Exception as e:
            raise Decline("to_data-raised:" + innermost_funsor_frame(e))
        back = np.asarray(back)
        be = len(eshape)
        bshape_back = back.shape[: back.ndim - be]
        # compare up to size-1 batch dims: right-align batch dims
        xb = x.reshape(tuple(shape) + tuple(eshape))
        k = max(len(bshape_back), nb)
        a1 = back.reshape((1,) * (k - len(bshape_back)) + back.shape)
        a2 = xb.reshape((1,) * (k - nb) + xb.shape)
        if a1.shape != a2.shape or not close(a1, a2):
            raise Violation("round-trip", f"to_data(to_funsor(x)) has shape {back.shape}, x has {x.shape} (or values differ): {self.describe(case)}")
        # the name->dim map decides the layout, whatever the order of the funsor's inputs
        if len(f.inputs) >= 2:
            import random

            order = list(f.inputs)
            random.Random(case["perm_seed"]).shuffle(order)
            try:
                back2 = np.asarray(to_data(f.align(tuple(order)), n2d))
            except Exception as e:
                raise Decline("to_data(aligned)-raised:" + innermost_funsor_frame(e))
            if back2.shape != back.shape or not close(back2, back):
                raise Violation("to_data-depends-on-input-order", f"inputs reordered to {order}: shape {back2.shape} vs {back.shape} or values differ: {self.describe(case)}")
        stt.count("completed")
        if len(kept) >= 2 or len(kept) != len(named):
            stt.mark_nontrivial(case_hash(case))

    def check_align_tensor(self, case, stt):
        from collections import OrderedDict

        from funsor import Bint, Tensor
        from vf.build import eval_at

        names, sizes, eshape, sel = list(case["names"]), list(case["sizes"]), list(case["eshape"]), list(case["align"])
        dt = ["real", "real", 3, 5][case["a"] % 4]  # the output domain (real or bounded integer) must survive the alignment
        x = fill(tuple(sizes + eshape), case["a"], dt)
        f = Tensor(x, OrderedDict((n, Bint[s]) for n, s in zip(names, sizes)), dt)
        g = f.align(tuple(sel))
        if g.output != f.output or g.dtype != f.dtype:
            raise Violation("align-output-domain", f"align changed the output domain {f.output} -> {g.output}: {self.describe(case)}")
        want_order = sel + [n for n in names if n not in sel]
        if list(g.inputs) != want_order:
            raise Violation("align-order", f"inputs {list(g.inputs)} expected {want_order}: {self.describe(case)}")
        perm = [names.index(n) for n in want_order] + list(range(len(names), len(names) + len(eshape)))
        if g.data.shape != tuple(np.transpose(x, perm).shape) or not np.array_equal(g.data, np.transpose(x, perm)):
            raise Violation("align-data", f"data is not the transposed array: {self.describe(case)}")
        for idx in itertools.product(*[range(s) for s in sizes]):
            pt = dict(zip(names, idx))
            if not close(eval_at(g, pt), x[idx]):
                raise Violation("align-value", f"at {pt}: {self.describe(case)}")
        stt.count("completed")
        if len(names) >= 2 and want_order != names:
            stt.mark_nontrivial(case_hash(case))

    def check_align_term(self, case, stt):
        import funsor.interpretations as I
        from vf.build import build
        from vf.props.c01 import evaluate_against_oracle

        node = robust_gen(lambda s_: gen_expr(SeedSource(s_), Opts(max_depth=2, reals=True), ("real", ())))(case["seed"])
        try:
            with getattr(I, case["mode"]):
                t = build(node)
        except Exception as e:
            raise Decline("build-raised:" + innermost_funsor_frame(e))
        names = list(t.inputs)
        if len(names) < 2:
            raise Decline("fewer than two inputs")
        import random

        r = random.Random(case["pick"])
        sel = r.sample(names, len(names))  # align() is documented for a permutation of all names
        try:
            g = t.align(tuple(sel))
        except Exception as e:
            raise Decline("align-raised:" + innermost_funsor_frame(e))
        want = sel + [n for n in names if n not in sel]
        if list(g.inputs) != want:
            raise Violation("align-order(term)", f"{type(t).__name__}: inputs {list(g.inputs)} expected {want}: {show(node)}")
        from funsor.interpreter import reinterpret

        try:
            ge = reinterpret(g)
        except Exception as e:
            raise Decline("reinterpret-raised:" + innermost_funsor_frame(e))
        evaluate_against_oracle(node, ge, stt, "aligned")
        stt.count("completed")
        stt.count("aligned:" + type(t).__name__.split("[")[0])
        if want != names:
            stt.mark_nontrivial(case_hash(case))

    def check_align_gauss(self, case, stt):
        import random

        from vf.build import build
        from vf.props.c01 import evaluate_against_oracle

        g0 = G(SeedSource(case["seed"]), Opts(gauss=True))
        if case["pick"] % 3 == 0:
            # three or four integer inputs, often of equal size: a permutation that is not its own inverse needs three
            eq = g0.pick([2, 2, 3])
            for n_ in g0.sizes:
                if g0.chance(0.7):
                    g0.sizes[n_] = eq
                g0.sizes[n_] = min(g0.sizes[n_], 3)
            leaf = gauss_leaf(g0, set(g0.sizes), max_ints=4, max_dim=3)
        else:
            leaf = gauss_leaf(g0, set(g0.sizes))
        t = build(leaf)
        if not hasattr(t, "white_vec"):
            raise Decline("constructor returned a mixture")
        names = list(t.inputs)
        r = random.Random(case["pick"])
        sel = r.sample(names, len(names))
        g = t.align(tuple(sel))
        want = sel + [n for n in names if n not in sel]
        if list(g.inputs) != want:
            raise Violation("align-order(gaussian)", f"inputs {list(g.inputs)} expected {want}: {show(leaf)}")
        evaluate_against_oracle(leaf, g, stt, "aligned-gaussian")
        stt.count("completed")
        if want != names:
            stt.mark_nontrivial(case_hash(case))

    def check_arange(self, case, stt):
        from funsor import Tensor
        from funsor.terms import Slice

        nargs, start, stop, step, dtype, name = case["nargs"], case["start"], case["stop"], case["step"], case["dtype"], case["name"]
        proto = Tensor(np.zeros(1))
        args = [(stop,), (start, stop), (start, stop, step), (start, stop, step, dtype)][nargs - 1]
        kw = {}
        if nargs < 4 and case["as_dtype_kw"]:
            kw["dtype"] = dtype
        eff_dtype = dtype if (nargs == 4 or kw) else stop
        eff_start = start if nargs >= 2 else 0
        eff_step = step if nargs >= 3 else 1
        if eff_dtype < 1:
            raise Decline("empty dtype")
        want = [v for v in range(eff_start, max(eff_start, stop), eff_step) if v < eff_dtype]
        if not want:
            raise Decline("empty range")
        try:
            t = proto.new_arange(name, *args, **kw)
        except Exception as e:
            raise Decline("new_arange-raised:" + innermost_funsor_frame(e))
        if list(t.inputs) != [name] or t.inputs[name].size != len(want) or t.dtype != eff_dtype:
            raise Violation("arange-type", f"new_arange{args}{kw} has inputs {dict(t.inputs)} dtype {t.dtype}; expected {name}: Bint[{len(want)}] -> Bint[{eff_dtype}]: {case}")
        if [int(v) for v in np.asarray(t.data).reshape(-1)] != want:
            raise Violation("arange-values", f"new_arange{args}{kw} = {np.asarray(t.data).tolist()} expected {want}: {case}")
        # the lazy counterpart and its materialisation denote the same function
        try:
            sl = Slice(name, eff_start, min(eff_dtype, max(eff_start, stop)), eff_step, eff_dtype)
            m = proto.materialize(sl)
        except Exception as e:
            raise Decline("slice-or-materialize-raised:" + innermost_funsor_frame(e))
        if dict(m.inputs) != dict(t.inputs) or m.dtype != t.dtype or not np.array_equal(np.asarray(m.data), np.asarray(t.data)):
            raise Violation("arange-vs-slice", f"new_arange{args}{kw} = {np.asarray(t.data).tolist()} over {dict(t.inputs)} but the materialised Slice is {np.asarray(m.data).tolist()} over {dict(m.inputs)}: {case}")
        stt.count("completed")
        if stop > eff_dtype or eff_step > 1:
            stt.mark_nontrivial(case_hash(case))

    def check_rename_onto(self, case, stt):
        from collections import OrderedDict

        from funsor import Bint, Tensor, Variable
        from funsor.terms import Slice

        names, sizes = list(case["names"]), dict(zip(case["names"], case["sizes"]))
        eshape = tuple(case["eshape"])
        data = fill(tuple(sizes[n_] for n_ in names) + eshape, case["a"], "real")
        x = Tensor(data, OrderedDict((n_, Bint[sizes[n_]]) for n_ in names))
        src, dst = case["src"], case["dst"]
        m, n = sizes[dst], sizes[src]
        if case["slice"]:
            start, step = case["slice"]
            stop = min(n, start + step * (m - 1) + 1)
            value = Slice(dst, start, stop, step, n)
            f = lambda v: start + step * v  # noqa: E731
        else:
            value = Variable(dst, Bint[n])
            f = lambda v: v  # noqa: E731
        subs = [(src, value)]
        fixed, renamed = {}, {}
        for nm, how in case["others"]:
            if how == "num":
                fixed[nm] = sizes[nm] - 1
                subs.append((nm, fixed[nm]))
            elif how == "rename":
                renamed[nm] = "zz_" + nm
                subs.append((nm, renamed[nm]))
            elif sizes[nm] == m:
                # a second input renamed onto dst as well (three-fold diagonal)
                renamed[nm] = dst
                subs.append((nm, dst))
        if case["order"]:
            subs = subs[::-1]
        try:
            y = x(**OrderedDict(subs))
        except Exception as e:
            raise Decline("substitution-raised:" + innermost_funsor_frame(e))
        want_inputs = {nm: sizes[nm] for nm in names if nm != src and nm not in fixed and nm not in renamed}
        want_inputs.update({new: sizes[nm] for nm, new in renamed.items() if new != dst})
        got_inputs = {k_: d_.size for k_, d_ in y.inputs.items()}
        if got_inputs != want_inputs:
            raise Violation("rename-onto-inputs", f"inputs {got_inputs} expected {want_inputs}: {case}")
        if not isinstance(y, Tensor):
            raise Decline("result-stays-lazy:" + type(y).__name__)
        out_names = list(y.inputs)
        for idx in itertools.product(*[range(want_inputs[k_]) for k_ in out_names]):
            pt = dict(zip(out_names, idx))
            src_idx = []
            for nm in names:
                if nm == src:
                    src_idx.append(f(pt[dst]))
                elif nm in fixed:
                    src_idx.append(fixed[nm])
                elif nm in renamed:
                    src_idx.append(pt[renamed[nm]])
                else:
                    src_idx.append(pt[nm])
            want = data[tuple(src_idx)]
            got = y.data[idx]
            if got.shape != want.shape or not np.array_equal(got, want):
                raise Violation("rename-onto-value", f"at {pt}: {np.asarray(got).tolist()} expected x{tuple(src_idx)} = {np.asarray(want).tolist()}: {case}")
        stt.count("completed")
        stt.count("rename-onto:" + ("slice" if case["slice"] else "variable") + (":src-first" if names.index(src) < names.index(dst) else ":dst-first"))
        stt.mark_nontrivial(case_hash(case))

    def check_materialize(self, case, stt):
        import random

        import funsor.interpretations as I
        from funsor import Tensor
        from vf.build import build, eval_at

        # a lazy integer-valued index expression
        r = random.Random(case["pick"])
        n = r.choice([2, 3, 4])
        g0 = G(SeedSource(case["seed"]), Opts(max_depth=2))
        node = g0.index_expr((n, ()), 2, set(g0.sizes))
        try:
            with I.lazy:
                x = build(node)
        except Exception as e:
            raise Decline("build-raised:" + innermost_funsor_frame(e))
        proto = Tensor(np.zeros(1))
        try:
            m = proto.materialize(x)
        except Exception as e:
            raise Decline("materialize-raised:" + innermost_funsor_frame(e))
        self.compare_materialized(node, m, x, stt, case)
        # the same prototype materialises a second expression whose inputs re-use the names with other sizes
        g1 = G(SeedSource(case["seed"] + 17), Opts(max_depth=2))
        for n_ in g1.sizes:
            g1.sizes[n_] = (g0.sizes.get(n_, 1) % 4) + 1
        node2 = g1.index_expr((n, ()), 2, set(g1.sizes))
        try:
            with I.lazy:
                x2 = build(node2)
            m2 = proto.materialize(x2)
        except Exception as e:
            raise Decline("second-materialize-raised:" + innermost_funsor_frame(e))
        stt.count("second-use-of-the-prototype")
        self.compare_materialized(node2, m2, x2, stt, case)

    def compare_materialized(self, node, m, x, stt, case):
        from funsor import Tensor
        from vf.build import eval_at

        inputs, out = typeof(node)
        if not set(m.inputs) <= set(inputs):
            raise Violation("materialize-inputs", f"{list(m.inputs)} vs {sorted(inputs)}: {show(node)}")
        for k_, d_ in m.inputs.items():
            if d_.dtype != inputs[k_][0] or tuple(d_.shape) != tuple(inputs[k_][1]):
                raise Violation("materialize-input-domain", f"input {k_} has domain {d_}, the expression has {inputs[k_]}: {show(node)}")
        orc = Oracle()
        for pt in int_points(inputs):
            try:
                want = orc.ev(node, pt)
            except OutOfDomain:
                raise Decline("oracle-out-of-domain")
            got = eval_at(m, pt)
            if not close(got, want):
                raise Violation("materialize-value", f"at {pt}: {np.asarray(got).tolist()} vs {np.asarray(want).tolist()} for {show(node)}")
        stt.count("completed")
        stt.count("materialized:" + type(x).__name__.split("[")[0])
        if not isinstance(x, Tensor):
            stt.mark_nontrivial(case_hash(case))


PROP = C19()
