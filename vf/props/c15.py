"""C15 — op tables are truthful and ops agree across scalar and array operands."""
import itertools
import math

import numpy as np
from hypothesis import strategies as st

from vf.core import Decline, Prop, Violation, case_hash
from vf.lang import close

INF = math.inf
TINY = np.finfo(float).tiny
HUGE = np.finfo(float).max
REAL_EDGE = [0.0, 1.0, -1.0, 0.5, -2.5, 3.0, TINY, -TINY, 1e-8, 1e8]
NONNEG_EDGE = [0.0, 1.0, 0.5, 3.0, TINY, 1e-8, 1e8]
LOG_EDGE = [-INF, 0.0, 1.0, -1.0, -700.0, 700.0, -1e308, 0.5 * math.log(HUGE), 2.5]  # log-space carrier: [-inf, max)
BOOLS = [False, True]


def carrier(sum_name, prod_name):
    if sum_name in ("or_",):
        return BOOLS
    if prod_name == "mul" and sum_name in ("max", "min"):
        return NONNEG_EDGE
    if sum_name in ("logaddexp", "sample"):
        return [x for x in LOG_EDGE if abs(x) < 1e300] + [-INF]
    return REAL_EDGE


def table_entries():
    """(label, thunk) — every entry of the published tables turned into its law on its carrier."""
    import funsor.ops as ops

    def nm(op):
        return op.__name__

    def as_arr(x):
        return np.asarray(x)

    out = []
    # units
    for op, u in ops.UNITS.items():
        if nm(op) in ("and_", "or_", "xor"):
            xs = BOOLS
        elif nm(op) in ("logaddexp", "sample"):
            xs = [x for x in LOG_EDGE]
        elif nm(op) == "mul":
            xs = REAL_EDGE
        else:
            xs = REAL_EDGE + [INF, -INF]
        for x in xs:
            def thunk(op=op, u=u, x=x):
                for form in ("scalar", "array"):
                    a = x if form == "scalar" else as_arr(x)
                    for got in (op(u, a), op(a, u)):
                        if not close(np.asarray(got, dtype=float), np.asarray(x, dtype=float)):
                            return f"UNITS[{nm(op)}]={u!r} is not neutral: {nm(op)}({u!r}, {x!r}) = {np.asarray(got).tolist()} ({form})"
                return None
            out.append((f"unit:{nm(op)}:{x!r}", thunk))
    # distributivity
    for s, p in ops.DISTRIBUTIVE_OPS:
        xs = carrier(nm(s), nm(p))
        for a, b, c in itertools.product(xs, repeat=3):
            def thunk(s=s, p=p, a=a, b=b, c=c):
                vals = [np.asarray(v) for v in (a, b, c)]
                with np.errstate(all="ignore"):
                    lhs = p(vals[0], s(vals[1], vals[2]))
                    rhs = s(p(vals[0], vals[1]), p(vals[0], vals[2]))
                lhs, rhs = np.asarray(lhs, dtype=float), np.asarray(rhs, dtype=float)
                if np.isnan(lhs).any() or np.isnan(rhs).any() or np.isinf(lhs).any() and np.isinf(rhs).any() and not np.array_equal(lhs, rhs) and False:
                    return "decline"
                if np.isinf(lhs).any() or np.isinf(rhs).any() or abs(float(lhs)) > 1e300:
                    return "decline" if not np.array_equal(lhs, rhs) and (abs(a) > 1e100 or abs(b) > 1e100 or abs(c) > 1e100) else (None if np.array_equal(lhs, rhs) or close(lhs, rhs) else f"({nm(s)},{nm(p)}) does not distribute at a={a!r}, b={b!r}, c={c!r}: {lhs.tolist()} vs {rhs.tolist()}")
                if not close(lhs, rhs):
                    return f"({nm(s)},{nm(p)}) does not distribute at a={a!r}, b={b!r}, c={c!r}: {lhs.tolist()} vs {rhs.tolist()}"
                return None
            out.append((f"distributive:{nm(s)},{nm(p)}:{a!r},{b!r},{c!r}", thunk))
    # binary inverses
    for table, tname in ((ops.BINARY_INVERSES, "BINARY_INVERSES"), (ops.SAFE_BINARY_INVERSES, "SAFE_BINARY_INVERSES")):
        for op, inv in table.items():
            xs = BOOLS if nm(op) == "xor" else [x for x in REAL_EDGE if abs(x) < 1e7 and (abs(x) > 1e-7 or x == 0)]
            for a, b in itertools.product(xs, repeat=2):
                if nm(op) == "mul" and b == 0:
                    continue
                def thunk(op=op, inv=inv, a=a, b=b, tname=tname):
                    for form in ("scalar", "array"):
                        aa, bb = (a, b) if form == "scalar" else (np.asarray(a, dtype=float if not isinstance(a, bool) else bool), np.asarray(b, dtype=float if not isinstance(b, bool) else bool))
                        got = inv(op(aa, bb), bb)
                        if got is None:
                            return "decline"
                        if not close(np.asarray(got, dtype=float), np.asarray(a, dtype=float)):
                            return f"{tname}[{nm(op)}]={nm(inv)}: {nm(inv)}({nm(op)}({a!r},{b!r}),{b!r}) = {np.asarray(got).tolist()} != {a!r} ({form})"
                    return None
                out.append((f"{tname}:{nm(op)}:{a!r},{b!r}", thunk))
    # unary inverses
    for op, uinv in ops.UNARY_INVERSES.items():
        for a in [x for x in REAL_EDGE if abs(x) < 1e7 and abs(x) > 1e-7]:
            def thunk(op=op, uinv=uinv, a=a):
                unit = ops.UNITS[op]
                for form in ("scalar", "array"):
                    aa = a if form == "scalar" else np.asarray(a)
                    got = op(aa, uinv(aa))
                    if not close(np.asarray(got, dtype=float), np.asarray(unit, dtype=float)):
                        return f"UNARY_INVERSES[{nm(op)}]={nm(uinv)}: {nm(op)}({a!r}, {nm(uinv)}({a!r})) = {np.asarray(got).tolist()} != unit {unit!r} ({form})"
                return None
            out.append((f"UNARY_INVERSES:{nm(op)}:{a!r}", thunk))
    # product to power
    for op, pw in ops.PRODUCT_TO_POWER.items():
        for x in [0.0, 1.0, -1.0, 0.5, -2.5, 3.0]:
            for n in range(1, 6):
                def thunk(op=op, pw=pw, x=x, n=n):
                    for form in ("scalar", "array"):
                        xx = x if form == "scalar" else np.asarray(x)
                        want = xx
                        for _ in range(n - 1):
                            want = op(want, xx)
                        got = pw(xx, n)
                        if not close(np.asarray(got, dtype=float), np.asarray(want, dtype=float)):
                            return f"PRODUCT_TO_POWER[{nm(op)}]={nm(pw)}: {nm(pw)}({x!r},{n}) = {np.asarray(got).tolist()} but {n}-fold {nm(op)} = {np.asarray(want).tolist()} ({form})"
                    return None
                out.append((f"PRODUCT_TO_POWER:{nm(op)}:{x!r}^{n}", thunk))
    return out


UNARY_OPS = {
    "neg": (np.negative, "real"), "abs": (np.abs, "real"), "exp": (np.exp, "small"), "log": (np.log, "pos0"), "sqrt": (np.sqrt, "nonneg"),
    "log1p": (np.log1p, "gt-1"), "sigmoid": (lambda x: 1 / (1 + np.exp(-x)), "small"), "tanh": (np.tanh, "real"), "atanh": (np.arctanh, "unit"),
    "reciprocal": (lambda x: 1.0 / x, "nonzero"), "pos": (lambda x: +x, "real"),
}
BINARY_OPS = {
    "add": np.add, "sub": np.subtract, "mul": np.multiply, "truediv": np.true_divide, "pow": np.power, "max": np.maximum, "min": np.minimum,
    "logaddexp": np.logaddexp, "eq": np.equal, "ne": np.not_equal, "lt": np.less, "le": np.less_equal, "gt": np.greater, "ge": np.greater_equal,
    "floordiv": np.floor_divide, "mod": np.mod,
}
SHAPES = [(), (1,), (3,), (2, 1), (3, 2)]
GRIDV = [0.25, 0.5, 1.0, 1.5, 2.0, 3.0, 0.75]


def dom_values(kind, n, a, b):
    vals = {
        "real": [-2.0, -0.5, 0.0, 0.25, 1.0, 3.0, -1.0],
        "small": [-3.0, -0.5, 0.0, 0.25, 1.0, 3.0, 20.0],
        "pos0": [0.0, 0.25, 1.0, 3.0, 1e-8, 100.0, 0.5],
        "nonneg": [0.0, 0.25, 1.0, 3.0, 4.0, 100.0, 0.5],
        "gt-1": [-0.5, 0.0, 0.25, 1.0, 3.0, -0.99, 10.0],
        "unit": [-0.9, -0.5, 0.0, 0.25, 0.5, 0.9, 0.1],
        "nonzero": [-2.0, -0.5, 0.25, 1.0, 3.0, 1e-8, -1e8],
        "pos": GRIDV,
    }[kind]
    return [vals[(a + b * i + (i * i) // 3) % len(vals)] for i in range(n)]


def random_eqn(r):
    """1-3 operands with 0-3 distinct letters each in any order (a permuted 3-d operand is not its own inverse
    permutation), output = any subset of the letters in any order."""
    letters = "abcd"
    nops = r.choice([1, 2, 2, 3])
    specs = []
    for _ in range(nops):
        k = r.choice([0, 1, 2, 2, 3, 3])
        specs.append("".join(r.sample(letters, k)))
    used = sorted(set("".join(specs)))
    out = r.sample(used, r.randint(0, len(used))) if used else []
    return ",".join(specs) + "->" + "".join(out)


def numeric_case(seed):
    import random

    r = random.Random(seed)
    fam = r.choice(["unary", "binary", "binary", "logaddexp", "logsumexp", "einsum_log", "einsum_map", "safe"])
    return dict(family=fam, op=r.choice(sorted(UNARY_OPS)) if fam == "unary" else r.choice(sorted(BINARY_OPS)),
                shape1=r.choice(SHAPES), shape2=r.choice(SHAPES), a=r.randrange(9973), b=r.randrange(1, 97), swap=r.random() < 0.5,
                edge=r.random() < 0.5, eqn=r.choice(["ab,bc->ac", "a,ab->a", "a,ab->b", "ab,bc->abc", "ab->", "ab->b", "a,a->a", "ab,b->a", "abc,c->ab", ",a->a", "a,b->ab", "ab,ab->"]) if r.random() < 0.3 else random_eqn(r),
                safeop=r.choice(["safesub", "safediv", "reciprocal"]))


class C15(Prop):
    id = "C15"
    rule = (
        "(1) every entry of UNITS, DISTRIBUTIVE_OPS, BINARY_INVERSES, SAFE_BINARY_INVERSES, UNARY_INVERSES, PRODUCT_TO_POWER is turned into its law "
        "and evaluated on the carrier the table is used on (reals; non-negatives for max/min with mul; the log-space carrier [-inf, max) for "
        "logaddexp; booleans exhaustively), on Python scalars and on 0-d arrays, over an edge grid {0, +-1, +-inf, tiny, huge, ...}: enumerated "
        "completely; (2) generated numeric cases: each unary/binary op on a Python scalar, a 0-d array and arrays of shapes () ... (3,2) in both operand "
        "orders must agree element-wise with numpy inside the op's domain; logaddexp / logsumexp / log-space einsum / max-plus einsum vs numpy with "
        "-inf operands and operands near the float range boundary (exact limits, never NaN); safesub / safediv / reciprocal never NaN on their "
        "callers' domain; non-trivial = an edge value is involved or the operand shapes differ"
    )
    assumptions = (
        "numpy ufuncs are the reference for scalar/array agreement inside each op's numeric domain",
        "carriers follow the callers (DESIGN.md C15 S): +inf is outside the log-space carrier, NaN and -0.0 are never generated",
    )
    cases = {"quick": 5000, "thorough": 200000}

    def strategy(self, tier):
        return st.integers(0, 2**40).map(numeric_case)

    def describe(self, case):
        return str(case)

    def signature(self, case):
        if "table" in case:
            return case["table"].split(":")[0] + ":" + case["table"].split(":")[1]
        return case["family"] + ":" + (case["op"] if case["family"] in ("unary", "binary") else case.get("eqn", ""))

    def extra(self, tier, shard, nshards, stt, seed):
        entries = table_entries()
        for i, (label, thunk) in enumerate(entries):
            if i % nshards != shard:
                continue
            stt.evaluations += 1
            try:
                msg = thunk()
            except Exception as e:
                stt.decline("table-law-raised:" + type(e).__name__)
                continue
            if msg == "decline":
                stt.decline("table-law-outside-float-range")
                continue
            if msg:
                key = label.split(":")[0] + ":" + label.split(":")[1]
                if not any(v["bucket"] == "table-entry-false|" + key for v in stt.violations):
                    stt.violations.append(dict(bucket="table-entry-false|" + key, message=msg, case={"table": label}))
                continue
            stt.count("table:" + label.split(":")[0])
            stt.mark_nontrivial("table:" + label)
        stt.exhaustive = True
        stt.notes["table_entries_total"] = len(entries) if shard == 0 else 0

    def check(self, case, stt):
        import funsor.ops as ops

        if "table" in case:
            for label, thunk in table_entries():
                if label == case["table"]:
                    msg = thunk()
                    if msg and msg != "decline":
                        raise Violation("table-entry-false|" + ":".join(label.split(":")[:2]), msg)
                    return
            raise Decline("unknown table label")
        fam = case["family"]
        stt.count("family:" + fam)
        a, b = case["a"], case["b"]
        s1, s2 = tuple(case["shape1"]), tuple(case["shape2"])
        n1 = int(np.prod(s1)) if s1 else 1
        n2 = int(np.prod(s2)) if s2 else 1
        nt = case["edge"] or s1 != s2
        with np.errstate(all="ignore"):
            if fam == "unary":
                ref, kind = UNARY_OPS[case["op"]]
                op = getattr(ops, case["op"])
                x = np.asarray(dom_values(kind, n1, a, b), dtype=float).reshape(s1)
                want = ref(x)
                got = op(x)
                if not close(got, want):
                    raise Violation("unary-array-vs-numpy|" + case["op"], f"{case['op']}({x.tolist()}) = {np.asarray(got).tolist()} numpy {want.tolist()}")
                for v in x.reshape(-1)[:4]:
                    gs = op(float(v))
                    g0 = op(np.asarray(float(v)))
                    w = ref(np.asarray(float(v)))
                    if not (close(gs, w) and close(g0, w)):
                        raise Violation("scalar-vs-array|" + case["op"], f"{case['op']}({float(v)!r}): python scalar {gs!r}, 0-d array {np.asarray(g0).tolist()}, numpy {w.tolist()}")
            elif fam == "binary":
                name = case["op"]
                op = getattr(ops, name)
                ref = BINARY_OPS[name]
                if name == "pow":
                    xk, yk = "pos", "real"
                elif name in ("truediv", "floordiv", "mod"):
                    xk, yk = "real", "nonzero"
                    if name != "truediv":
                        yk = "pos"
                elif name == "logaddexp":
                    xk, yk = "real", "real"
                else:
                    xk, yk = "real", "real"
                try:
                    np.broadcast_shapes(s1, s2)
                except ValueError:
                    s2 = s1
                    n2 = n1
                x = np.asarray(dom_values(xk, n1, a, b), dtype=float).reshape(s1)
                y = np.asarray(dom_values(yk, n2, a + 5, b + 2), dtype=float).reshape(s2)
                want = ref(x, y)
                got = op(x, y)
                if not close(got, want):
                    raise Violation("binary-array-vs-numpy|" + name, f"{name}({x.tolist()}, {y.tolist()}) = {np.asarray(got).tolist()} numpy {np.asarray(want).tolist()}")
                xs, ys = float(x.reshape(-1)[0]), float(y.reshape(-1)[0])
                w = ref(np.asarray(xs), np.asarray(ys))
                forms = {
                    "scalar,scalar": op(xs, ys),
                    "0d,0d": op(np.asarray(xs), np.asarray(ys)),
                    "scalar,0d": op(xs, np.asarray(ys)),
                    "0d,scalar": op(np.asarray(xs), ys),
                }
                for form, g in forms.items():
                    if g is None or not close(np.asarray(g, dtype=float), np.asarray(w, dtype=float)):
                        raise Violation("scalar-vs-array|" + name, f"{name}({xs!r}, {ys!r}) [{form}] = {None if g is None else np.asarray(g).tolist()} numpy {np.asarray(w).tolist()}")
                # scalar with array, both orders
                g1 = op(xs, y)
                g2 = op(x, ys)
                if not close(g1, ref(xs, y)) or not close(g2, ref(x, ys)):
                    raise Violation("scalar-with-array|" + name, f"{name} scalar/array: {np.asarray(g1).tolist()} vs {np.asarray(ref(xs, y)).tolist()} ; {np.asarray(g2).tolist()} vs {np.asarray(ref(x, ys)).tolist()}")
            elif fam == "logaddexp":
                xs = [LOG_EDGE[(a + i * b) % len(LOG_EDGE)] if case["edge"] else GRIDV[(a + i) % len(GRIDV)] for i in range(n1)]
                ys = [LOG_EDGE[(a + 3 + i * (b + 1)) % len(LOG_EDGE)] if case["edge"] else GRIDV[(a + 2 * i) % len(GRIDV)] for i in range(n1)]
                x = np.asarray(xs, dtype=float).reshape(s1)
                y = np.asarray(ys, dtype=float).reshape(s1)
                want = np.logaddexp(x, y)
                forms = {"array,array": ops.logaddexp(x, y)}
                x0, y0 = float(x.reshape(-1)[0]), float(y.reshape(-1)[0])
                w0 = np.logaddexp(x0, y0)
                for form, g in {"scalar,scalar": ops.logaddexp(x0, y0), "scalar,array": ops.logaddexp(x0, np.asarray(y0)), "array,scalar": ops.logaddexp(np.asarray(x0), y0), "0d,0d": ops.logaddexp(np.asarray(x0), np.asarray(y0))}.items():
                    if not close(np.asarray(g, dtype=float), w0):
                        raise Violation("logaddexp-limit|" + form, f"logaddexp({x0!r}, {y0!r}) [{form}] = {np.asarray(g).tolist()} exact {float(w0)!r}")
                if not close(forms["array,array"], want):
                    raise Violation("logaddexp-limit|array", f"logaddexp({x.tolist()}, {y.tolist()}) = {np.asarray(forms['array,array']).tolist()} exact {want.tolist()}")
                # the limits themselves, in every operand form: both operands the unit -inf, one of them, large values
                ninf = float("-inf")
                for px, py in [(ninf, ninf), (ninf, 0.5), (0.5, ninf), (700.0, 700.0), (-745.0, ninf), (ninf, -1e308), (1e308, ninf), (-HUGE, ninf), (ninf, -HUGE), (-HUGE, -HUGE), (-HUGE, 0.5)]:
                    w_ = np.logaddexp(px, py)
                    for form, g in {"scalar,scalar": ops.logaddexp(px, py), "scalar,array": ops.logaddexp(px, np.asarray([py, py])), "array,scalar": ops.logaddexp(np.asarray([px, px]), py),
                                    "0d,0d": ops.logaddexp(np.asarray(px), np.asarray(py)), "array,array": ops.logaddexp(np.asarray([px, 0.25]), np.asarray([py, ninf]))}.items():
                        got_ = np.asarray(g, dtype=float).reshape(-1)[0]
                        if not close(got_, w_):
                            raise Violation("logaddexp-limit|" + form, f"logaddexp({px!r}, {py!r}) [{form}] = {float(got_)!r} exact {float(w_)!r}")
            elif fam == "logsumexp":
                shape = s1 if s1 else (3,)
                n = int(np.prod(shape))
                xs = [LOG_EDGE[(a + i * b) % len(LOG_EDGE)] if case["edge"] else GRIDV[(a + i) % len(GRIDV)] for i in range(n)]
                x = np.asarray(xs, dtype=float).reshape(shape)
                for axis in [None] + list(range(len(shape))):
                    for keepdims in (False, True):
                        m = np.max(x, axis=axis, keepdims=True)
                        m = np.where(np.isfinite(m), m, 0.0)
                        want = np.log(np.sum(np.exp(x - m), axis=axis, keepdims=True)) + m
                        if not keepdims:
                            want = np.squeeze(want, axis=axis) if axis is not None else want.reshape(())
                        got = ops.logsumexp(x, axis, keepdims)
                        if not close(got, want):
                            raise Violation("logsumexp-limit", f"logsumexp({x.tolist()}, axis={axis}, keepdims={keepdims}) = {np.asarray(got).tolist()} exact {np.asarray(want).tolist()}")
            elif fam in ("einsum_log", "einsum_map"):
                import funsor.einsum.numpy_log as nlog
                import funsor.einsum.numpy_map as nmap

                eqn = case["eqn"]
                ins, out = eqn.split("->")
                specs = ins.split(",")
                sizes = {c: 1 + (a + ord(c)) % 3 for c in set(ins) - {","}}
                operands = []
                for i, spec in enumerate(specs):
                    shape = tuple(sizes[c] for c in spec)
                    n = int(np.prod(shape)) if shape else 1
                    if case["edge"]:
                        # a common (possibly huge) offset per operand plus small variations and -inf entries: the shift
                        # trick must give the exact limit; a dynamic range > ~700 inside one operand is a precision
                        # question, not a limit, and is not generated
                        base = [0.0, 700.0, -700.0, 1e300, -1e300, 0.5 * math.log(HUGE)][(a + 3 * i) % 6]
                        vals = [(-INF if (a + 5 * i + k * b) % 4 == 0 else base + GRIDV[(a + k) % len(GRIDV)]) for k in range(n)]
                        if (a + b + i) % 2 == 0 and any(c in out for c in spec):
                            # the offset varies along the dimensions the operand shares with the output (each output cell has
                            # its own shift); within one output cell the dynamic range stays small, so the exact limit is demanded
                            vals = []
                            for k, cell in enumerate(itertools.product(*[range(sizes[c]) for c in spec])):
                                key_ = sum((j_ + 1) * (1 + spec.index(c)) for c, j_ in zip(spec, cell) if c in out)
                                # (moderate offsets only: sums of multiples of 0.25 below 1e4 are exact, nothing is absorbed)
                                vals.append(-INF if (a + 5 * i + k * b) % 5 == 0 else [0.0, 700.0, -700.0, -800.0, 1500.0, -1500.0][(a + 3 * i + key_) % 6] + GRIDV[(a + k) % len(GRIDV)])
                    else:
                        vals = [GRIDV[(a + 7 * i + k * b + (k * k) // 2) % len(GRIDV)] for k in range(n)]
                    operands.append(np.asarray(vals, dtype=float).reshape(shape))
                red = sorted(set(ins) - {","} - set(out))
                want = np.full(tuple(sizes[c] for c in out), -INF)
                for oidx in itertools.product(*[range(sizes[c]) for c in out]):
                    env = dict(zip(out, oidx))
                    acc = -INF
                    for ridx in itertools.product(*[range(sizes[c]) for c in red]):
                        env.update(dict(zip(red, ridx)))
                        tot = sum(float(o[tuple(env[c] for c in spec)]) for o, spec in zip(operands, specs))
                        acc = np.logaddexp(acc, tot) if fam == "einsum_log" else max(acc, tot)
                    want[oidx] = acc
                try:
                    got = (nlog if fam == "einsum_log" else nmap).einsum(eqn, *operands)
                except Exception as e:
                    raise Decline("einsum-raised:" + type(e).__name__)
                if not close(got, want):
                    raise Violation(fam + "-limit", f"{fam} '{eqn}' on {[o.tolist() for o in operands]} = {np.asarray(got).tolist()} exact {want.tolist()}")
            else:  # safe ops: never NaN on the callers' domain (finite or -inf minuend; zero / huge divisors)
                name = case["safeop"]
                op = getattr(ops, name)
                import random

                r_ = random.Random(a * 97 + b)
                pool_ = LOG_EDGE + [-INF, -HUGE]
                minuend = np.asarray([r_.choice(pool_) for i in range(n1)], dtype=float).reshape(s1)
                lin = np.asarray([[0.0, 1.0, 0.5, 3.0, TINY, 1e300, 1e-300][(a + i * b) % 7] for i in range(n1)], dtype=float).reshape(s1)
                if name == "safesub":
                    # every pairing of edge values occurs, in particular -inf - -inf; minuend as array, 0-d array or number
                    sub_ = np.asarray([r_.choice(pool_) for i in range(n1)], dtype=float).reshape(s1)
                    form_ = r_.choice(["array", "array", "number", "0d"])
                    if form_ == "number":
                        minuend = minuend.reshape(-1)[:1].reshape(())
                        got = op(float(minuend), sub_)
                    elif form_ == "0d":
                        minuend = minuend.reshape(-1)[:1].reshape(())
                        got = op(minuend, sub_)
                    else:
                        got = op(minuend, sub_)
                    plain_ = np.asarray(minuend - sub_, dtype=float)
                    fin_ = np.isfinite(plain_)
                    if got is not None and fin_.any() and not np.allclose(np.broadcast_to(np.asarray(got, dtype=float), plain_.shape)[fin_], plain_[fin_], rtol=1e-12, atol=0):
                        raise Violation("safe-op-value|safesub", f"safesub differs from plain subtraction where that is finite: {np.asarray(minuend).tolist()} - {sub_.tolist()} = {np.asarray(got).tolist()}")
                elif name == "safediv":
                    # divisors: zero, ordinary, the smallest normal float and subnormals (their reciprocal overflows)
                    div = np.asarray([r_.choice([0.0, 1.0, 0.5, TINY, 1e300, 2.0, 5e-324, 1e-320, 1e-310]) for i in range(n1)], dtype=float).reshape(s1)
                    lin = np.asarray([r_.choice([0.0, 0.0, 1.0, 0.5, 3.0, TINY, 1e300, 1e-300]) for i in range(n1)], dtype=float).reshape(s1)
                    got = op(lin, div)
                    if (lin == 0).any() and False:
                        pass
                else:
                    got = op(lin)
                if got is None:
                    raise Decline("safe-op-undefined-for-operands")
                bad = np.isnan(np.asarray(got, dtype=float))
                if name == "safediv":
                    # 0 * clip(1/0) is a genuine 0 * max: only NaN is forbidden
                    pass
                if bad.any():
                    raise Violation("safe-op-nan|" + name, f"{name} produced NaN: operands {minuend.tolist() if name == 'safesub' else lin.tolist()}")
        stt.count("completed")
        if nt:
            stt.mark_nontrivial(case_hash(case))


PROP = C15()
