"""C10 — Markov products equal the explicit left-to-right fold over time."""
import itertools

import numpy as np
from hypothesis import strategies as st

from vf.core import Decline, Prop, Violation, case_hash, innermost_funsor_frame
from vf.lang import close

SEMIRINGS = ["add_mul", "logaddexp_add", "max_add", "min_add", "max_mul", "min_mul"]
ALGOS = ["sequential", "naive", "mixed", "markov_eager", "markov_lazy"]
GRID = [0.25 * i for i in range(1, 9)]
NAMEPOOL = ["pa", "zb", "mc", "ad", "ye", "kf"]


def np_ops(sem):
    s, p = sem.split("_")
    S = {"add": np.add, "logaddexp": np.logaddexp, "max": np.maximum, "min": np.minimum}[s]
    P = {"mul": np.multiply, "add": np.add}[p]
    return S, P


def funsor_ops(sem):
    from funsor import ops

    s, p = sem.split("_")
    return getattr(ops, s), getattr(ops, p)


def expand(a, b, n):
    m = len(GRID)
    return np.asarray([GRID[(a + b * i + (i * i * (a % 7 + 1)) // 3) % m] for i in range(n)], dtype=float)


def case_strategy(tier):
    maxdur = 8 if tier == "quick" else 12

    @st.composite
    def _s(draw):
        R = lambda lo, hi: draw(st.sampled_from(range(lo, hi + 1)))  # noqa: E731
        kind = draw(st.sampled_from(["markov"] * 4 + ["lagged"]))
        sem = draw(st.sampled_from(SEMIRINGS))
        if kind == "markov":
            # longer chains in both tiers for a third of the cases (segment counts 5, 6 need durations 10, 12)
            dur = R(1, maxdur) if R(0, 2) else R(9, 13)
            npairs = R(1, 3) if dur <= 8 else R(1, 2)
            names = draw(st.permutations(NAMEPOOL))
            pairs = [(names[2 * i], names[2 * i + 1], R(1, 3 if npairs < 3 else 2)) for i in range(npairs)]
            nb = R(0, 2)
            batch = [("u", R(1, 3)), ("w", R(1, 3))][:nb]
            algo = draw(st.sampled_from(ALGOS))
            return dict(
                kind=kind, sem=sem, duration=dur, pairs=pairs, batch=batch,
                dep_time=draw(st.sampled_from([True, True, True, False])),
                dep_batch=draw(st.booleans()),
                # a free real parameter multiplying / added to every factor, or one parameter per time step (w[time], w: Reals[T])
                real=draw(st.sampled_from([False, False, True, "per_step"])),
                # segment counts: mostly divisors of the duration (an even split), otherwise any count
                algo=algo, segments=draw(st.sampled_from([k_ for k_ in range(1, dur + 1) if dur % k_ == 0])) if R(0, 4) else R(1, dur), a=R(0, 9973), b=R(1, 97),
                # strongly negative log-potentials in the semirings whose product is +: partial sums far below log(tiny)
                scale=draw(st.sampled_from([1.0, 1.0, 1.0, -60.0, -100.0, -400.0])) if sem.endswith("_add") else 1.0,
                time=draw(st.sampled_from(["t", "time", "pa_t"])),
            )
        lagsets = [(1,), (2,), (3,), (1, 2), (1, 3), (2, 3), (1, 2, 3)]
        return dict(
            # every duration 1..13 in both tiers: two full periods of the lag sets with lcm 6 need 12 steps
            kind=kind, sem=sem, duration=R(1, 13), lags=draw(st.sampled_from(lagsets)),
            nvars=R(1, 2), size=R(1, 2), periods=R(1, 3), a=R(0, 9973), b=R(1, 97),
            glob=draw(st.booleans()),
            # one free real parameter per time step, w[time] with w: Reals[T] declared global, bound after the product
            per_step=R(0, 3) == 0,
        )

    return _s()


def build_markov(case):
    """(trans funsor, time Variable, step dict, numpy array T[t][batch...][prev...][curr...], real value)"""
    from collections import OrderedDict

    import funsor
    from funsor import Bint, Real, Tensor, Variable

    dur = case["duration"]
    pairs = [tuple(p) for p in case["pairs"]]
    batch = [tuple(b) for b in case["batch"]]
    sizes = [s for _, _, s in pairs]
    shape = (
        (dur if case["dep_time"] else 1,)
        + tuple(s if case["dep_batch"] else 1 for _, s in batch)
        + tuple(sizes)
        + tuple(sizes)
    )
    n = int(np.prod(shape))
    data = expand(case["a"], case["b"], n).reshape(shape) * case.get("scale", 1.0)
    full_shape = (dur,) + tuple(s for _, s in batch) + tuple(sizes) + tuple(sizes)
    full = np.broadcast_to(data, full_shape).copy()
    # funsor tensor carries only the inputs it depends on
    inputs = OrderedDict()
    squeeze = []
    axis = 0
    tname = case["time"]
    if case["dep_time"]:
        inputs[tname] = Bint[dur]
    else:
        squeeze.append(0)
    for i, (bn, bs) in enumerate(batch):
        if case["dep_batch"]:
            inputs[bn] = Bint[bs]
        else:
            squeeze.append(1 + i)
    for pn, cn, s in pairs:
        inputs[pn] = Bint[s]
    for pn, cn, s in pairs:
        inputs[cn] = Bint[s]
    tdata = data.reshape(tuple(d for i, d in enumerate(data.shape) if i not in squeeze))
    # permute funsor inputs so that name order is not the canonical one
    trans = Tensor(tdata, inputs)
    rval = None
    if case["real"] == "per_step":
        from funsor import Reals

        S, P = funsor_ops(case["sem"])
        trans = P(trans, Variable("r", Reals[dur])[Variable(tname, Bint[dur])])
    elif case["real"]:
        r = Variable("r", Real)
        S, P = funsor_ops(case["sem"])
        trans = P(trans, r)
    step = {pn: cn for pn, cn, s in pairs}
    return trans, Variable(tname, Bint[dur]), step, full


def oracle_fold(case, full, rval):
    """Explicit fold.  Returns array indexed [batch..., prev..., curr...]."""
    S, P = np_ops(case["sem"])
    pairs = case["pairs"]
    batch = case["batch"]
    k = len(pairs)
    nb = len(batch)
    sizes = [p[2] for p in pairs]
    m = int(np.prod(sizes))
    bshape = tuple(b[1] for b in batch)
    T = full.reshape((full.shape[0],) + bshape + (m, m))
    if rval is not None:
        rv = np.asarray(rval, dtype=float)
        T = P(T, rv.reshape((-1,) + (1,) * (T.ndim - 1)) if rv.ndim == 1 else rv)
    R = T[0]
    for t in range(1, T.shape[0]):
        # R[..., p, c] = S_m P(R[..., p, m], T[t][..., m, c])
        prod = P(R[..., :, :, None], T[t][..., None, :, :])
        acc = prod[..., :, 0, :]
        for j in range(1, m):
            acc = S(acc, prod[..., :, j, :])
        R = acc
    return R.reshape(bshape + tuple(sizes) + tuple(sizes))


class C10(Prop):
    id = "C10"
    rule = (
        "case = (semiring, duration 1-8 quick / 1-12 thorough (lagged models: 1-13 in both tiers), 1-3 prev->curr pairs with independently shuffled names and sizes 1-3, "
        "0-2 batch inputs, transition depending or not on time/batch, optional free real parameter, algorithm in {sequential_sum_product, "
        "naive, mixed with every num_segments, MarkovProduct eager, MarkovProduct lazy+reinterpret}); oracle = numpy left fold in time "
        "order; lagged models: sarkka_bilmes_product vs naive_sarkka_bilmes_product for lag sets over {1,2,3}, every duration and period "
        "count; the thorough tier additionally enumerates the whole (duration x segments x semiring) grid; non-trivial = duration>=3 and "
        "(odd duration or 1<segments<duration or a lag>1)"
    )
    assumptions = (
        "data from the grid {0.25..2.0} (non-negative, so max/min with mul are semirings)",
        "AssertionError / NotImplementedError raised by an algorithm is a decline (e.g. time-independent transition of odd duration)",
    )
    cases = {"quick": 2400, "thorough": 40000}

    def strategy(self, tier):
        return case_strategy(tier)

    def describe(self, case):
        return str({k: v for k, v in case.items() if k not in ("a", "b")})

    def signature(self, case):
        if case["kind"] == "markov":
            return f"{case['algo']}|pairs={len(case['pairs'])}|odd={case['duration'] % 2}|dep_time={case['dep_time']}"
        return f"lagged|{tuple(case['lags'])}|dur<{'period' if case['duration'] < int(np.lcm.reduce(case['lags'])) else 'more'}"

    def shrink_candidates(self, case):
        if case["kind"] == "markov":
            for d in range(1, case["duration"]):
                yield dict(case, duration=d, segments=min(case["segments"], d))
            if len(case["pairs"]) > 1:
                for i in range(len(case["pairs"])):
                    yield dict(case, pairs=[p for j, p in enumerate(case["pairs"]) if j != i])
            if case["batch"]:
                yield dict(case, batch=case["batch"][:-1])
            if case["real"]:
                yield dict(case, real=False)
            for s in range(1, case["segments"]):
                yield dict(case, segments=s)
            for sem in SEMIRINGS[:2]:
                if sem != case["sem"]:
                    yield dict(case, sem=sem)
        else:
            for d in range(1, case["duration"]):
                yield dict(case, duration=d)
            if case["nvars"] > 1:
                yield dict(case, nvars=1)
            if case["periods"] > 1:
                yield dict(case, periods=1)

    def check(self, case, stt):
        if case["kind"] == "markov":
            return self.check_markov(case, stt)
        return self.check_lagged(case, stt)

    def check_markov(self, case, stt):
        import funsor.interpretations as I
        from funsor.interpreter import reinterpret
        from funsor.sum_product import (
            MarkovProduct,
            mixed_sequential_sum_product,
            naive_sequential_sum_product,
            sequential_sum_product,
        )
        from vf.build import eval_at

        trans, time, step, full = build_markov(case)
        S, P = funsor_ops(case["sem"])
        algo = case["algo"]
        stt.count("algo:" + algo)
        stt.count("sem:" + case["sem"])
        try:
            if algo == "sequential":
                r = sequential_sum_product(S, P, trans, time, step)
            elif algo == "naive":
                r = naive_sequential_sum_product(S, P, trans, time, step)
            elif algo == "mixed":
                r = mixed_sequential_sum_product(S, P, trans, time, step, num_segments=case["segments"])
            elif algo == "markov_eager":
                r = MarkovProduct(S, P, trans, time, step)
            else:
                with I.lazy:
                    lz = MarkovProduct(S, P, trans, time, step)
                if time.name in lz.inputs or any("__BOUND" in n for n in lz.inputs):
                    raise Violation("markov-lazy-inputs", f"lazy MarkovProduct inputs {list(lz.inputs)}: {self.describe(case)}")
                r = reinterpret(lz)
        except Violation:
            raise
        except Exception as e:
            raise Decline("raised:" + innermost_funsor_frame(e))
        pairs = case["pairs"]
        batch = case["batch"]
        expected_inputs = {b[0] for b in batch if case["dep_batch"]} | {p[0] for p in pairs} | {p[1] for p in pairs}
        if case["real"]:
            expected_inputs.add("r")
        if not set(r.inputs) <= expected_inputs:
            raise Violation("extra-inputs", f"result inputs {list(r.inputs)} not among {sorted(expected_inputs)}: {self.describe(case)}")
        d_ = case["duration"]
        rvals = [None] if not case["real"] else ([0.5, 1.25] if case["real"] != "per_step" else [[0.5 + 0.25 * ((3 * t) % 5) for t in range(d_)], [1.25 - 0.25 * (t % 3) for t in range(d_)]])
        for rval in rvals:
            want = oracle_fold(case, full, rval)
            bshape = [range(b[1]) for b in batch]
            sizes = [range(p[2]) for p in pairs]
            for idx in itertools.product(*(bshape + sizes + sizes)):
                pt = {}
                for (bn, bs), i in zip(batch, idx[: len(batch)]):
                    pt[bn] = i
                for (pn, cn, s), i in zip(pairs, idx[len(batch) : len(batch) + len(pairs)]):
                    pt[pn] = i
                for (pn, cn, s), i in zip(pairs, idx[len(batch) + len(pairs) :]):
                    pt[cn] = i
                if rval is not None:
                    pt["r"] = np.asarray(rval)
                try:
                    got = eval_at(r, pt)
                except Decline:
                    raise
                except Exception as e:
                    raise Decline("binding-raised:" + innermost_funsor_frame(e))
                if not close(got, want[idx]):
                    raise Violation("wrong-value", f"at {pt}: {algo} gives {np.asarray(got).tolist()}, explicit fold {want[idx]}: {self.describe(case)}")
        stt.count("completed")
        d = case["duration"]
        if d >= 3 and (d % 2 == 1 or (algo == "mixed" and 1 < case["segments"] < d) or len(pairs) >= 2):
            stt.mark_nontrivial(case_hash(case))

    def check_lagged(self, case, stt):
        from collections import OrderedDict

        from funsor import Bint, Tensor, Variable
        from funsor.sum_product import naive_sarkka_bilmes_product, sarkka_bilmes_product
        from vf.build import eval_at

        S, P = funsor_ops(case["sem"])
        dur, lags, nvars, size = case["duration"], tuple(case["lags"]), case["nvars"], case["size"]
        names = ["x", "y"][:nvars]
        inputs = OrderedDict(time=Bint[dur])
        if case["glob"]:
            inputs["g"] = Bint[2]
        for nm in names:
            inputs[nm] = Bint[size]
        for lag in lags:
            # the first variable carries every lag, the second only the largest
            for nm in names[:1] if lag != max(lags) else names:
                inputs["_PREV_" * lag + nm] = Bint[size]
        shape = tuple(d.size for d in inputs.values())
        data = expand(case["a"], case["b"], int(np.prod(shape))).reshape(shape)
        trans = Tensor(data, inputs)
        time = Variable("time", Bint[dur])
        gv = frozenset({"g"}) if case["glob"] else frozenset()
        wval = None
        if case.get("per_step"):
            from funsor import Reals

            trans = P(trans, Variable("w", Reals[dur])[time])
            gv = gv | {"w"}
            wval = np.asarray([0.5 + 0.25 * ((3 * t + case["a"]) % 5) for t in range(dur)])
            stt.count("lagged:per-step-parameter")
        stt.count("lagged:" + ",".join(map(str, lags)))
        try:
            want = naive_sarkka_bilmes_product(S, P, trans, time, gv)
        except Exception as e:
            raise Decline("naive-raised:" + innermost_funsor_frame(e))
        try:
            got = sarkka_bilmes_product(S, P, trans, time, gv, num_periods=case["periods"])
        except (AssertionError, NotImplementedError) as e:
            raise Decline("raised:" + innermost_funsor_frame(e))
        except (MemoryError, RecursionError):
            raise
        except Exception as e:
            raise Violation("sarkka-raised-where-naive-returns:" + type(e).__name__, f"{e!r:.200}: {self.describe(case)}")
        if set(got.inputs) != set(want.inputs):
            raise Violation("lagged-inputs", f"inputs {sorted(got.inputs)} vs naive {sorted(want.inputs)}: {self.describe(case)}")
        names_ = sorted(n for n in want.inputs if n != "w")
        for idx in itertools.product(*[range(want.inputs[n].size) for n in names_]):
            pt = dict(zip(names_, idx))
            if wval is not None:
                pt["w"] = wval
            try:
                a, b = eval_at(got, pt), eval_at(want, pt)
            except Decline:
                raise
            except Exception as e:
                raise Decline("lagged-binding-raised:" + innermost_funsor_frame(e))
            if not close(a, b):
                raise Violation("lagged-wrong-value", f"at {pt}: sarkka_bilmes {np.asarray(a).tolist()} naive {np.asarray(b).tolist()}: {self.describe(case)}")
        stt.count("completed")
        if dur >= 3 and max(lags) > 1:
            stt.mark_nontrivial(case_hash(case))

    def extra(self, tier, shard, nshards, stt, seed):
        """Grid: every duration 1..13 x every segment count x time-dependent and time-homogeneous transitions
        (quick: two semirings rotating with the seed, one pair; thorough: all semirings, one and two pairs)."""
        i = 0
        quick = tier != "thorough"
        sems = [SEMIRINGS[(seed + k_) % len(SEMIRINGS)] for k_ in (0, 3)] if quick else SEMIRINGS
        for dur in range(1, 14):
            for seg in range(1, dur + 1):
                for sem in sems:
                    for npairs in ((1,) if quick else (1, 2)):
                        for dep_time in (True, False):
                            for algo in ("mixed", "sequential", "markov_eager"):
                                if algo != "mixed" and seg != 1:
                                    continue
                                i += 1
                                if i % nshards != shard:
                                    continue
                                case = dict(kind="markov", sem=sem, duration=dur, pairs=[["zb", "pa", 2], ["ad", "mc", 2]][:npairs], batch=[["u", 2]] if dep_time else [],
                                            dep_time=dep_time, dep_batch=True, real=False, algo=algo, segments=seg, a=(i + 7 * seed) % 9973, b=1 + (i + seed) % 97, time="t")
                                stt.evaluations += 1
                                try:
                                    self.check_markov(case, stt)
                                except Decline as d:
                                    stt.decline(d.bucket)
                                except Violation as v:
                                    stt.violations.append(dict(bucket=v.bucket + "|grid", message=v.message, case=case))
                                    return
        stt.exhaustive = not quick


PROP = C10()
