"""C07 — hash-consing: structural equality is object identity, held weakly.

A case is an explicit history: {"recipes": [...], "steps": [...]}.
recipe (JSON): ["Variable", name, dom] | ["Number", v, dtype] | ["Tensor", array_slot, [[name,size],...], dtype]
             | ["Binary", op, i, j] | ["Unary", op, i] | ["Reduce", op, i, [names]] | ["Subs", i, [[name, j]]]
             | ["Stack", name, [i,...]] | ["Lambda", [name,size], i]
             | ["Bint", n] | ["Reals", shape] | ["Product", [i,...]] | ["Op", kind, params] | ["Type", clsname, [typenames]]
   (i, j are indices of earlier recipes)
step: ["construct", r, interp] | ["drop", r] | ["gc"] | ["pickle", r] | ["copy", r] | ["reinterpret", r] | ["realloc", slot]
"""
import copy
import gc
import pickle
import random
import weakref

from hypothesis import strategies as st

from vf.core import robust_gen, Decline, Prop, Violation, case_hash

INTERPS = ["reflect", "lazy", "eager", "normalize", "memoize"]
OPS = ["add", "mul", "logaddexp", "sub", "max"]
UOPS = ["neg", "exp", "abs"]
SLICE_SPECS = [["s", None, 3, None], ["s", 0, 3, None], ["s", 0, 3, 1], ["s", None, 3, 1], ["s", 1, None, 2], ["s", None, None, -1], ["i", 0], ["i", -1]]


def gen_case(seed):
    r = random.Random(seed)
    recipes = []
    names = ["hx", "hy", "hi", "hj"]
    nslots = 3

    def add(rec):
        recipes.append(rec)
        return len(recipes) - 1

    funs, doms = [], []
    for _ in range(r.randint(2, 4)):
        k = r.choice(["Variable", "Variable", "Number", "Tensor", "Tensor"])
        if k == "Variable":
            funs.append(add(["Variable", r.choice(names), r.choice([["bint", 17 + r.randint(0, 2)], ["reals", [7, 5 + r.randint(0, 1)]], ["reals", []]])]))
        elif k == "Number":
            funs.append(add(["Number", r.choice([0.5, 1.5, 2.5]), "real"]))
        else:
            slot = r.randrange(nslots)
            funs.append(add(["Tensor", slot, [["hi", 3]], "real"] if r.random() < 0.7 else ["Tensor", slot, [], "real"]))
    for _ in range(r.randint(2, 6)):
        k = r.choice(["Binary", "Binary", "Unary", "Reduce", "Subs", "Stack", "Lambda", "Dup"])
        if k == "Binary":
            funs.append(add(["Binary", r.choice(OPS), r.choice(funs), r.choice(funs)]))
        elif k == "Unary":
            funs.append(add(["Unary", r.choice(UOPS), r.choice(funs)]))
        elif k == "Reduce":
            funs.append(add(["Reduce", r.choice(["add", "logaddexp"]), r.choice(funs), [r.choice(["hi", "hj"])]]))
        elif k == "Subs":
            funs.append(add(["Subs", r.choice(funs), [[r.choice(names), r.choice(funs)]]]))
        elif k == "Stack":
            funs.append(add(["Stack", "hs", [r.choice(funs) for _ in range(r.randint(1, 2))]]))
        elif k == "Lambda":
            funs.append(add(["Lambda", ["hi", 3], r.choice(funs)]))
        else:
            # the same recipe a second time: must map to the identical object
            funs.append(add(list(recipes[r.choice(funs)])))
    for _ in range(r.randint(1, 3)):
        k = r.choice(["Bint", "Reals", "Product", "Op", "Op", "Type"])
        if k == "Bint":
            doms.append(add(["Bint", 17 + r.randint(0, 2)]))
        elif k == "Reals":
            doms.append(add(["Reals", [7, 5 + r.randint(0, 1)]]))
        elif k == "Product" and doms:
            doms.append(add(["Product", [r.choice(doms) for _ in range(2)]]))
        elif k == "Op":
            kind = r.choice(["SumOp", "SumOp", "ReshapeOp", "GetitemOp", "GetsliceOp", "GetsliceOp", "GetsliceOp", "GetsliceOp", "UnsqueezeOp"])
            # -1 and -2 have the same Python hash; so have the tuples (-1,) and (-2,)
            params = {"SumOp": [r.choice([None, 0, -1, -2, [0, 1], [-1], [-2]]), r.choice([False, True])], "ReshapeOp": [r.choice([[2, 3], [6], [3, 2], [-1], [2, -1]])],
                      "GetitemOp": [r.choice([0, 1, 2])], "GetsliceOp": [r.choice(SLICE_SPECS)], "UnsqueezeOp": [r.choice([-1, -2, 0, 1])]}[kind]
            add(["Op", kind, params])
            if r.random() < 0.5 and kind in ("SumOp", "UnsqueezeOp"):
                twin = [(-2 if params[0] == -1 else -1 if params[0] == -2 else params[0])] + params[1:]
                if twin != params:
                    add(["Op", kind, twin])
        else:
            add(["Type", r.choice(["Binary", "Reduce", "Tensor"]), r.choice([["AddOp", "Funsor", "Funsor"], ["Op", "Tensor", "Tensor"], ["AssociativeOp", "Funsor", "frozenset"]])])
    steps = []
    n = len(recipes)
    for _ in range(r.randint(6, 24)):
        a = r.choice(["construct", "construct", "construct", "construct", "drop", "drop", "gc", "pickle", "copy", "reinterpret", "realloc", "reject"])
        if a == "reject":
            # a malformed request that compares equal to a valid one (float sizes, a list shape, a negative size)
            ds = [i for i, rec in enumerate(recipes) if rec[0] in ("Bint", "Reals")]
            if ds:
                steps.append(["reject", r.choice(ds), r.choice(["float", "negative", "float", "str"])])
        elif a == "construct":
            steps.append(["construct", r.randrange(n), r.choice(INTERPS)])
        elif a == "gc":
            steps.append(["gc"])
        elif a == "realloc":
            steps.append(["realloc", r.randrange(nslots)])
        else:
            steps.append([a, r.randrange(n)])
    return {"recipes": recipes, "steps": steps}


class World:
    """Arrays (by slot), live handles and the reference model."""

    def __init__(self):
        import numpy as np

        self.np = np
        self.arrays = {s: np.arange(3.0) + s for s in range(3)}
        self.gen = {s: 0 for s in range(3)}  # generation of the array in each slot
        self.handles = {}  # recipe index -> object (strong)
        self.keys = {}  # recipe index -> structural key at construction time
        self.weak = []  # (key, weakref) of everything ever constructed


def recipe_inputs(recipes, i):
    rec = recipes[i]
    k = rec[0]
    I_ = lambda j: recipe_inputs(recipes, j)  # noqa: E731
    if k == "Variable":
        return {rec[1]}
    if k == "Tensor":
        return {n for n, s in rec[2]}
    if k == "Binary":
        return I_(rec[2]) | I_(rec[3])
    if k == "Unary":
        return I_(rec[2])
    if k == "Reduce":
        return I_(rec[2]) - set(rec[3])
    if k == "Subs":
        arg = I_(rec[1])
        out = arg - {n for n, j in rec[2]}
        for n, j in rec[2]:
            if n in arg:
                out |= I_(j)
        return out
    if k == "Stack":
        out = {rec[1]}
        for j in rec[2]:
            out |= I_(j)
        return out
    if k == "Lambda":
        return I_(rec[2]) - {rec[1][0]}
    return set()


def structural_key(w, recipes, i):
    """Key under which two recipes must denote the identical object (arrays by identity = slot generation)."""
    rec = recipes[i]
    k = rec[0]
    K = lambda j: structural_key(w, recipes, j)  # noqa: E731
    if k == "Tensor":
        return ("Tensor", rec[1], w.gen[rec[1]], tuple(map(tuple, rec[2])), rec[3])
    if k in ("Variable",):
        return ("Variable", rec[1], tuple(rec[2][0:1]) + (tuple(rec[2][1]) if isinstance(rec[2][1], list) else rec[2][1],))
    if k == "Number":
        return ("Number", rec[1], rec[2])
    if k == "Binary":
        return ("Binary", rec[1], K(rec[2]), K(rec[3]))
    if k == "Unary":
        return ("Unary", rec[1], K(rec[2]))
    if k == "Reduce":
        return ("Reduce", rec[1], K(rec[2]), tuple(sorted(rec[3])))
    if k == "Subs":
        # SubsMeta drops entries whose key is not an input of the argument
        arg_inputs = recipe_inputs(recipes, rec[1])
        return ("Subs", K(rec[1]), tuple((n, K(j)) for n, j in rec[2] if n in arg_inputs))
    if k == "Stack":
        return ("Stack", rec[1], tuple(K(j) for j in rec[2]))
    if k == "Lambda":
        return ("Lambda", tuple(rec[1]), K(rec[2]))
    if k == "Product":
        return ("Product", tuple(K(j) for j in rec[1]))
    return tuple(map(lambda x: tuple(map(str, x)) if isinstance(x, list) else x, rec)) if k != "Op" else ("Op", rec[1], repr(rec[2]))


def make(w, recipes, i):
    """Construct recipe i under the current interpretation through the public constructors."""
    from collections import OrderedDict

    import funsor
    from funsor import Bint, Reals, Tensor, Variable, ops
    from funsor.domains import Product
    from funsor.terms import Binary, Funsor, Lambda, Number, Reduce, Stack, Subs, Unary

    rec = recipes[i]
    k = rec[0]
    M = lambda j: make(w, recipes, j)  # noqa: E731

    def dom(d):
        return Bint[d[1]] if d[0] == "bint" else Reals[tuple(d[1])]

    if k == "Variable":
        return Variable(rec[1], dom(rec[2]))
    if k == "Number":
        return Number(rec[1], rec[2])
    if k == "Tensor":
        return Tensor(w.arrays[rec[1]], OrderedDict((n, Bint[s]) for n, s in rec[2]), rec[3])
    if k == "Binary":
        return Binary(getattr(ops, rec[1]), M(rec[2]), M(rec[3]))
    if k == "Unary":
        return Unary(getattr(ops, rec[1]), M(rec[2]))
    if k == "Reduce":
        return Reduce(getattr(ops, rec[1]), M(rec[2]), frozenset(Variable(n, Bint[3]) for n in rec[3]))
    if k == "Subs":
        return Subs(M(rec[1]), tuple((n, M(j)) for n, j in rec[2]))
    if k == "Stack":
        return Stack(rec[1], tuple(M(j) for j in rec[2]))
    if k == "Lambda":
        return Lambda(Variable(rec[1][0], Bint[rec[1][1]]), M(rec[2]))
    if k == "Bint":
        return Bint[rec[1]]
    if k == "Reals":
        return Reals[tuple(rec[1])]
    if k == "Product":
        return Product[tuple(M(j) for j in rec[1])]
    if k == "Op":
        kind, params = rec[1], rec[2]
        if kind == "SumOp":
            ax = tuple(params[0]) if isinstance(params[0], list) else params[0]
            return ops.SumOp(ax, params[1])
        if kind == "ReshapeOp":
            return ops.ReshapeOp(tuple(params[0]))
        if kind == "GetitemOp":
            return ops.GetitemOp(params[0])
        if kind == "UnsqueezeOp":
            return ops.UnsqueezeOp(params[0])
        spec = params[0]
        return ops.GetsliceOp(slice(spec[1], spec[2], spec[3]) if spec[0] == "s" else spec[1])
    if k == "Type":
        import funsor.terms as T

        cls = {"Binary": Binary, "Reduce": Reduce, "Tensor": Tensor}[rec[1]]
        tps = tuple({"AddOp": ops.AddOp, "Op": ops.Op, "AssociativeOp": ops.AssociativeOp, "Funsor": Funsor, "Tensor": Tensor, "frozenset": frozenset}[t] for t in rec[2])
        return cls[tps]
    raise AssertionError(k)


def holds_array(obj, seen=None):
    """Does the term (as built, through its constructor arguments) hold a numpy array?"""
    import numpy as np
    from funsor.terms import Funsor

    seen = set() if seen is None else seen
    if id(obj) in seen:
        return False
    seen.add(id(obj))
    if isinstance(obj, np.ndarray):
        return True
    if isinstance(obj, Funsor):
        return any(holds_array(a, seen) for a in getattr(obj, "_ast_values", ()))
    if isinstance(obj, (tuple, frozenset)):
        return any(holds_array(a, seen) for a in obj)
    return False


def has_array(recipes, i):
    rec = recipes[i]
    if rec[0] == "Tensor":
        return True
    subs = []
    if rec[0] in ("Binary",):
        subs = [rec[2], rec[3]]
    elif rec[0] in ("Unary", "Reduce", "Lambda"):
        subs = [rec[2]]
    elif rec[0] == "Subs":
        subs = [rec[1]] + [j for n, j in rec[2]]
    elif rec[0] == "Stack":
        subs = list(rec[2])
    return any(has_array(recipes, j) for j in subs)


def is_module_singleton(obj):
    """Default-parameter ops are module-level singletons (ops.sum, ops.getitem, ...): never reclaimed."""
    try:
        return type(obj)() is obj
    except Exception:
        return False


def requested_args_ok(w, recipes, i, obj):
    """(I2) the object carries the arguments that were requested - never a stale object from a recycled id/name."""
    from funsor import ops
    from funsor.tensor import Tensor
    from funsor.terms import Number, Variable

    rec = recipes[i]
    k = rec[0]
    if k == "Tensor" and isinstance(obj, Tensor):
        return obj.data is w.arrays[rec[1]] and list(obj.inputs) == [n for n, s in rec[2]]
    if k == "Variable" and isinstance(obj, Variable):
        return obj.name == rec[1]
    if k == "Number" and isinstance(obj, Number):
        return obj.data == rec[1]
    if k in ("Bint", "Reals"):
        want_shape = () if k == "Bint" else tuple(rec[1])
        want_dtype = rec[1] if k == "Bint" else "real"
        name = f"Bint[{rec[1]}]" if k == "Bint" else "Reals[{}]".format(",".join(map(str, rec[1])))
        return (tuple(obj.shape) == want_shape and all(type(s_) is int for s_ in obj.shape) and obj.dtype == want_dtype
                and type(obj.dtype) is type(want_dtype) and repr(obj) == name)
    if k == "Op":
        kind, params = rec[1], rec[2]
        d = dict(obj.defaults)
        if kind == "GetsliceOp":
            spec = params[0]
            want = slice(spec[1], spec[2], spec[3]) if spec[0] == "s" else spec[1]
            got = d.get("index")
            return type(got) is type(want) and got == want and (not isinstance(want, slice) or (got.start, got.stop, got.step) == (want.start, want.stop, want.step))
        if kind == "SumOp":
            ax = tuple(params[0]) if isinstance(params[0], list) else params[0]
            return d.get("axis") == ax and d.get("keepdims") == params[1]
        if kind == "ReshapeOp":
            return tuple(d.get("shape")) == tuple(params[0])
        if kind == "GetitemOp":
            return d.get("offset") == params[0]
        if kind == "UnsqueezeOp":
            return d.get("dim") == params[0] and type(d.get("dim")) is int
    return True


def sub_recipes(recipes, i, out=None):
    """Indices of the recipes that recipe i is (transitively) built from."""
    out = set() if out is None else out
    rec = recipes[i]
    k = rec[0]
    js = []
    if k == "Binary":
        js = [rec[2], rec[3]]
    elif k in ("Unary", "Reduce", "Lambda"):
        js = [rec[2]]
    elif k == "Subs":
        js = [rec[1]] + [j for n, j in rec[2]]
    elif k == "Stack":
        js = list(rec[2])
    elif k == "Product":
        js = list(rec[1])
    for j in js:
        if j not in out:
            out.add(j)
            sub_recipes(recipes, j, out)
    return out


def argument_objects(w, recipes):
    """The objects denoted by the argument recipes of the live handles, rebuilt under reflect: hash-consing
    returns the existing object where one is alive.  The hash-consing key of a live term retains its original
    arguments (for binder terms these are not the renamed _ast_values), so such objects are legitimately alive."""
    import funsor.interpretations as I

    objs = []
    for i in list(w.handles):
        for j in sub_recipes(recipes, i):
            try:
                with I.reflect:
                    objs.append(make(w, recipes, j))
            except Exception:  # noqa: BLE001
                pass
    return objs


def track(w, key, obj):
    """weak references to the term and to the variables inside its frozenset arguments
    (a helper function so that no loop variable keeps them alive in the caller)."""
    from funsor.terms import Funsor

    w.weak.append((key, weakref.ref(obj)))
    for sub in getattr(obj, "_ast_values", ()):
        if isinstance(sub, frozenset):
            for v in sub:
                if isinstance(v, Funsor):
                    w.weak.append((("inner", key), weakref.ref(v)))


def alive_elsewhere(obj, w):
    """Is the object reachable from a live handle (as a sub-term)?"""
    from funsor.terms import Funsor

    stack = list(w.handles.values())
    seen = set()
    while stack:
        t = stack.pop()
        if id(t) in seen:
            continue
        seen.add(id(t))
        if t is obj:
            return True
        if isinstance(t, Funsor):
            stack.extend(getattr(t, "_ast_values", ()))
        elif isinstance(t, (tuple, frozenset)):
            stack.extend(t)
    return False


def used_then_dropped(r):
    import funsor.interpretations as I
    from funsor import Reals, Variable, ops
    from funsor.domains import find_domain
    from funsor.terms import Unary

    kind = r.choice(["SumOp", "ProdOp", "LogsumexpOp", "AmaxOp", "AminOp", "MeanOp", "StdOp", "VarOp", "AllOp", "AnyOp", "GetsliceOp", "ReshapeOp", "UnsqueezeOp"])
    shape = (7 + r.randint(0, 3), 11, 13)
    interp = r.choice(["reflect", "lazy", "eager", "direct"])
    cls = getattr(ops, kind)
    if kind == "GetsliceOp":
        op = cls(r.choice([slice(1, 5, 2), 3, (slice(None), 2), (Ellipsis, slice(0, 3))]))
    elif kind == "ReshapeOp":
        op = cls((shape[0] * 11, 13))
    elif kind == "UnsqueezeOp":
        op = cls(r.choice([1, 2, -2]))
    else:
        op = cls(r.choice([1, 2, (0, 2), -2, (1,)]), r.choice([True, False]))
    dom = Reals[shape]
    term = None
    if interp == "direct":
        out = find_domain(op, dom)
    else:
        with getattr(I, interp):
            term = Unary(op, Variable("hv", dom))
        out = term.output
    refs = dict(op=weakref.ref(op), dom=weakref.ref(dom), out=weakref.ref(out))
    if term is not None:
        refs["term"] = weakref.ref(term)
    desc = (kind, repr(dict(op.defaults)), shape, interp)
    del op, dom, out, term
    gc.collect()
    return desc, [k for k, ref in refs.items() if ref() is not None]


def desc_of(kind, params):
    return f"{kind}({params})"


def op_spellings(r):
    """One parametrisation of an op requested through every spelling the constructor accepts (all positional, trailing
    defaults omitted, keywords, the method / function API on a lazy funsor) and through pickle / deepcopy: one live object,
    carrying exactly the requested parameters (None included)."""
    import copy
    import pickle

    import funsor.interpretations as I
    from funsor import Reals, Variable, ops
    from funsor.terms import Unary

    kind = r.choice(["SumOp", "ProdOp", "AmaxOp", "AminOp", "LogsumexpOp", "MeanOp", "StdOp", "VarOp", "GetsliceOp", "FlipOp", "UnsqueezeOp", "ReshapeOp", "ArgmaxOp", "ArgminOp"])
    cls = getattr(ops, kind, None)
    if cls is None:
        return kind, None
    if kind == "GetsliceOp":
        params = {"index": r.choice([None, 2, slice(1, 3), (None, slice(None)), Ellipsis, (slice(None), None)])}
    elif kind == "FlipOp":
        params = {"axis": r.choice([None, 0, (0, 1), -1])}
    elif kind == "UnsqueezeOp":
        params = {"dim": r.choice([0, 1, -1])}
    elif kind == "ReshapeOp":
        params = {"shape": r.choice([(6,), (2, 3), (3, 2)])}
    elif kind in ("ArgmaxOp", "ArgminOp"):
        params = {"axis": r.choice([None, 0, 1, -1]), "keepdims": r.choice([False, False, True])}
    elif kind in ("StdOp", "VarOp"):
        params = {"axis": r.choice([None, 0, 1, (0, 1)]), "keepdims": r.choice([False, False, True]), "ddof": r.choice([0, 0, 1])}
    else:
        params = {"axis": r.choice([None, 0, 1, (0, 1), -1]), "keepdims": r.choice([False, False, True])}
    defaults = dict(cls().defaults)  # the default instance: parameter names in signature order, with their defaults
    names = [k for k in defaults if k in params]
    if set(names) != set(params):
        return desc_of(kind, params), None
    full = cls(*[params[n] for n in names])
    desc = desc_of(kind, params)
    got = {k: v for k, v in dict(full.defaults).items() if k in params}
    if got != params or any(type(got[k]) is not type(params[k]) for k in params):
        return desc, f"parameters: requested {params}, the op carries {got}"
    variants = {"keywords": cls(**params)}
    # trailing parameters left at their defaults
    trail = list(names)
    while trail and trail[-1] in defaults and defaults[trail[-1]] == params[trail[-1]] and type(defaults[trail[-1]]) is type(params[trail[-1]]):
        trail.pop()
        variants[f"positional-{len(trail)}"] = cls(*[params[n] for n in trail])
        if trail:
            variants[f"mixed-{len(trail)}"] = cls(*[params[n] for n in trail[:-1]], **{trail[-1]: params[trail[-1]]})
    variants["pickle"] = pickle.loads(pickle.dumps(full))
    variants["pickle-2"] = pickle.loads(pickle.dumps(full, 2))
    variants["deepcopy"] = copy.deepcopy(full)
    if kind in ("SumOp", "ProdOp", "AmaxOp", "AminOp", "LogsumexpOp", "MeanOp"):
        x = Variable("hv", Reals[2, 3])
        with I.reflect:
            t1 = Unary(full, x)
            meth = {"SumOp": "sum", "ProdOp": "prod", "AmaxOp": "max", "AminOp": "min", "LogsumexpOp": "logsumexp", "MeanOp": "mean"}[kind]
            try:
                t2 = getattr(x, meth)(*[params[n] for n in trail]) if hasattr(x, meth) else None
            except Exception:  # noqa: BLE001
                t2 = None
        if t2 is not None and isinstance(t2, Unary):
            variants["method-api"] = t2.op
            if t2 is not t1:
                return desc, f"method-api: x.{meth}(...) and Unary(op, x) under reflect are different terms"
        tb = pickle.loads(pickle.dumps(t1))
        if tb is not t1:
            return desc, "pickle of a lazy term holding the op returned a different term"
    for how, other in variants.items():
        if other is not full:
            return desc, f"{how}: a second live op {other!r} with parameters {dict(other.defaults)} (first: {dict(full.defaults)})"
    return desc, None


def domain_round_trip(r):
    import copy
    import pickle

    from funsor import Bint, Reals, Variable
    from funsor.domains import Array, Product

    def one():
        k = r.choice(["bint", "bint_shaped", "bint_shaped", "reals", "array_real", "array_int", "array_int"])
        shape = tuple(r.randint(1, 4) for _ in range(r.randint(1, 3)))
        size = r.randint(2, 19)
        if k == "bint":
            return Bint[size], (size, ())
        if k == "bint_shaped":
            return Bint[(size,) + shape], (size, shape)
        if k == "reals":
            return Reals[shape], ("real", shape)
        if k == "array_real":
            return Array["real", shape], ("real", shape)
        return Array[size, shape], (size, shape)

    d, want = one()
    if r.random() < 0.2:
        d2, want2 = one()
        d = Product[d, d2]
        want = None
    desc = repr(d)
    obj = Variable("hv", d) if r.random() < 0.4 and want is not None else d
    for how, f in (("pickle", lambda x: pickle.loads(pickle.dumps(x))), ("pickle-protocol-2", lambda x: pickle.loads(pickle.dumps(x, 2))), ("deepcopy", copy.deepcopy)):
        back = f(obj)
        if back is not obj:
            return desc, f"{how}: returned a different object {back!r}"
        dd = back.output if obj is not d else back
        if want is not None and (dd.dtype != want[0] or tuple(dd.shape) != tuple(want[1])):
            return desc, f"{how}: came back with dtype {dd.dtype} shape {dd.shape}"
    return desc, None


class C07(Prop):
    id = "C07"
    rule = (
        "generated histories (6-24 steps, seed-expanded and shrunk by step removal) over a pool of recipes - Variable / Number / Tensor over shared "
        "array slots, lazy Binary / Unary / Reduce / Subs / Stack / Lambda over other recipes (including duplicates of a recipe), domains Bint[n] / "
        "Reals[s] / Product, parametrised ops SumOp / ReshapeOp / GetitemOp / GetsliceOp with alternative spellings of a slice, parametrised types "
        "Cls[args] - with steps construct(recipe, interpretation in {reflect, lazy, eager, normalize, memoize}) / drop / gc.collect / pickle round "
        "trip / copy+deepcopy / reinterpret under reflect / reallocate an array slot; after every step: two live handles are identical iff their "
        "structural keys (arrays by identity) are equal, a constructed object carries exactly the requested arguments, pickle/copy/reinterpret under "
        "reflect return the identical object, and every object no live handle reaches is dead after gc.collect(); non-trivial = construct -> drop -> "
        "gc -> construct of the same recipe, an array reallocation, or a pickle round trip of a term with a binder"
    )
    assumptions = (
        "CPython reference counting + gc.collect() make reclamation deterministic; identity is demanded for terms built under reflect or lazily (eager results that allocate arrays are not expected to be identical)",
        "parametrised types are cached with lru_cache/WeakValueDictionary and are only required to be identical, not reclaimed",
    )
    cases = {"quick": 2400, "thorough": 40000}

    def strategy(self, tier):
        return st.integers(0, 2**40).map(robust_gen(gen_case))

    def extra(self, tier, shard, nshards, stt, seed):
        """Two generated scenarios outside the recipe histories: (a) a parametrised op and freshly sized domains are *used*
        (in a term under reflect / lazy / eager, or by find_domain) and then dropped - op, argument domain, result domain and
        term must all be dead after gc.collect(); (b) domains of every documented form (Bint[n], Bint[n, *shape], Reals[shape],
        Array[dtype, shape], Product) and variables over them survive pickle / deepcopy as the identical object."""
        n = 40 if tier == "quick" else 600
        for scenario in ("used_then_dropped", "domain_round_trip", "op_spellings"):
            for it in range(n):
                case = {"scenario": scenario, "rseed": (seed * 1000 + shard) * 10000 + it}
                stt.evaluations += 1
                try:
                    self.check(case, stt)
                except Decline as d:
                    stt.decline(d.bucket)
                except Violation as v:
                    if not any(x["bucket"] == v.bucket for x in stt.violations) and len(stt.violations) < 6:
                        stt.violations.append(dict(bucket=v.bucket, message=v.message, case=case))

    def check_scenario(self, case, stt):
        r = random.Random(case["rseed"])
        if case["scenario"] == "used_then_dropped":
            try:
                desc, alive = used_then_dropped(r)
            except Exception as e:  # noqa: BLE001
                raise Decline("used-then-dropped-raised:" + type(e).__name__)
            stt.count("used-then-dropped:" + desc[0] + ":" + desc[3])
            if alive:
                raise Violation("used-object-not-reclaimed|" + desc[0] + "|" + ",".join(alive), f"{desc}: still alive after every handle was dropped and gc.collect(): {alive}")
            stt.mark_nontrivial(case_hash({"utd": repr(desc)}))
        elif case["scenario"] == "op_spellings":
            try:
                desc, problem = op_spellings(r)
            except Exception as e:  # noqa: BLE001
                raise Decline("op-spellings-raised:" + type(e).__name__ + ":" + str(e)[:60])
            stt.count("op-spellings:" + desc.split("(")[0])
            if problem:
                raise Violation("op-spellings|" + desc.split("(")[0] + "|" + problem.split(":")[0], f"{desc}: {problem}")
            stt.mark_nontrivial(case_hash({"ops": desc}))
        else:
            try:
                desc, problem = domain_round_trip(r)
            except Exception as e:  # noqa: BLE001
                raise Decline("domain-round-trip-raised:" + type(e).__name__)
            stt.count("domain-round-trip:" + desc.split("[")[0])
            if problem:
                raise Violation("domain-round-trip|" + desc.split("[")[0] + "|" + problem.split(":")[0], f"{desc}: {problem}")
            stt.mark_nontrivial(case_hash({"drt": desc}))

    def describe(self, case):
        return str(case)[:700]

    def signature(self, case):
        if "scenario" in case:
            return case["scenario"]
        return ",".join(sorted({s[0] for s in case["steps"]}))

    def shrink_candidates(self, case):
        if "scenario" in case:
            return
        steps = list(case["steps"])
        for i in range(len(steps)):
            yield dict(case, steps=steps[:i] + steps[i + 1:])

    def check(self, case, stt):
        import funsor.interpretations as I
        from funsor.interpreter import reinterpret
        from funsor.terms import Funsor

        if "scenario" in case:
            return self.check_scenario(case, stt)
        recipes, steps = case["recipes"], case["steps"]
        w = World()
        gc.collect()
        nt = False
        seen_dropped = set()
        stt.count("history")

        def reachable_keys():
            out = set()

            def visit(key):
                if key in out:
                    return
                out.add(key)
                for sub in key:
                    if isinstance(sub, tuple):
                        visit(sub)
                        for s2 in sub:
                            if isinstance(s2, tuple) and len(s2) == 2 and isinstance(s2[1], tuple):
                                visit(s2[1])

            for i in w.handles:
                visit(w.keys[i])
            return out

        def invariant(where):
            items = list(w.handles.items())
            for a in range(len(items)):
                for b in range(a + 1, len(items)):
                    (i, x), (j, y) = items[a], items[b]
                    same_key = w.keys[i] == w.keys[j]
                    lazyish = w.lazy.get(i, True) and w.lazy.get(j, True)
                    if not lazyish:
                        continue  # an evaluating interpretation may legitimately return another existing object
                    if same_key and x is not y:
                        raise Violation("equal-recipes-distinct-objects", f"{where}: recipes {recipes[i]} / {recipes[j]} built from equal arguments are different objects: {self.describe(case)}")
                    if not same_key and x is y:
                        raise Violation("distinct-recipes-identical-object", f"{where}: recipes {recipes[i]} and {recipes[j]} (different arguments) are the same object {x!r}: {self.describe(case)}")

        w.lazy = {}
        try:
            for si, step in enumerate(steps):
                act = step[0]
                if act == "construct":
                    _, i, interp = step
                    key = structural_key(w, recipes, i)
                    try:
                        if interp == "memoize":
                            with I.reflect, I.memoize():
                                obj = make(w, recipes, i)
                        else:
                            with getattr(I, interp):
                                obj = make(w, recipes, i)
                    except Exception as e:
                        stt.decline("construct-raised:" + type(e).__name__)
                        continue
                    if not requested_args_ok(w, recipes, i, obj):
                        raise Violation("stale-or-wrong-arguments", f"step {si}: {recipes[i]} returned {obj!r} whose arguments differ from the requested ones: {self.describe(case)}")
                    if key in seen_dropped:
                        nt = True
                    w.handles[i] = obj
                    w.keys[i] = key
                    # identity is demanded when the construction did not evaluate (reflect, lazy of lazy recipes, domains, ops)
                    w.lazy[i] = interp in ("reflect", "memoize") or not isinstance(obj, Funsor) or recipes[i][0] in ("Variable", "Number", "Tensor")
                    try:
                        # reclamation is demanded of terms; domains, ops and parametrised types may be cached strongly
                        if isinstance(obj, Funsor):
                            track(w, key, obj)
                    except TypeError:
                        pass
                elif act == "reject":
                    from funsor.domains import Bint as _Bint, Reals as _Reals

                    rec = recipes[step[1]]
                    try:
                        if rec[0] == "Bint":
                            bad = {"float": float(rec[1]), "negative": -rec[1], "str": str(rec[1])}[step[2]]
                            _Bint[bad]
                        else:
                            shp = list(rec[1])
                            bad = {"float": tuple(float(s_) for s_ in shp), "negative": tuple([-shp[0]] + shp[1:]), "str": tuple(map(str, shp))}[step[2]]
                            _Reals[bad]
                        stt.count("malformed-domain-accepted")
                    except Exception:
                        stt.count("malformed-domain-rejected")
                    nt = True
                elif act == "drop":
                    i = step[1]
                    if i in w.handles:
                        seen_dropped.add(w.keys[i])
                        del w.handles[i]
                        w.keys.pop(i, None)
                elif act == "gc":
                    gc.collect()
                    live = reachable_keys()
                    # objects whose own recipe is an argument of a live handle: the hash-consing key of a live binder
                    # term retains its original (un-renamed) arguments, so these are reachable although not via _ast_values
                    live_ids = {id(r()) for k, r in w.weak if (k[1] if k and k[0] == "inner" else k) in live and r() is not None}
                    arg_objs = argument_objects(w, recipes)
                    live_ids |= {id(o) for o in arg_objs}
                    for key, ref in w.weak:
                        k0 = key[1] if key and key[0] == "inner" else key
                        if k0 not in live and ref() is not None and id(ref()) not in live_ids and not any(ref() is h for h in w.handles.values()) and not alive_elsewhere(ref(), w):
                            if key[0] in ("Type",):
                                continue
                            # generation of arrays may differ: an object is legitimately alive only if reachable
                            raise Violation("not-reclaimed", f"step {si}: object for key {key} is still alive after all handles were dropped and gc.collect(): {self.describe(case)}")
                    arg_objs = None
                    w.weak = [(k_, r_) for k_, r_ in w.weak if r_() is not None]
                elif act == "realloc":
                    slot = step[1]
                    # only when no live handle uses the slot (otherwise the array is still referenced)
                    if any(("Tensor", slot) == k_[:2] for k_ in reachable_keys() if isinstance(k_, tuple) and k_ and k_[0] == "Tensor"):
                        continue
                    old_id = id(w.arrays[slot])
                    del w.arrays[slot]
                    gc.collect()
                    fresh = [w.np.arange(3.0) + slot for _ in range(6)]
                    pick = next((a for a in fresh if id(a) == old_id), fresh[0])
                    w.arrays[slot] = pick
                    w.gen[slot] += 1
                    nt = True
                    stt.count("realloc" + (":id-recycled" if id(pick) == old_id else ""))
                elif act in ("pickle", "copy", "reinterpret"):
                    i = step[1]
                    if i not in w.handles:
                        continue
                    obj = w.handles[i]
                    if not isinstance(obj, Funsor):
                        continue
                    if not w.lazy.get(i, False) and (act != "pickle" or holds_array(obj)):
                        continue  # an evaluated result: only the array-free pickle round trip is demanded of it
                    if act in ("pickle",) and (has_array(recipes, i) or holds_array(obj)):
                        continue  # arrays are compared by identity; pickling copies them
                    if act == "pickle":
                        try:
                            with I.reflect:
                                back = pickle.loads(pickle.dumps(obj))
                        except Exception as e:
                            stt.decline("pickle-raised:" + type(e).__name__)
                            continue
                        if back is not obj:
                            raise Violation("pickle-round-trip-not-identical", f"step {si}: {recipes[i]}: {self.describe(case)}")
                        if getattr(obj, "bound", None):
                            nt = True
                    elif act == "copy":
                        with I.reflect:
                            same = copy.copy(obj) is obj and (has_array(recipes, i) or copy.deepcopy(obj) is obj)
                        if not same:
                            raise Violation("copy-not-identical", f"step {si}: {recipes[i]}: {self.describe(case)}")
                    else:
                        with I.reflect:
                            back = reinterpret(obj)
                        if back is not obj:
                            raise Violation("reinterpret-under-reflect-not-identical", f"step {si}: {recipes[i]}: {self.describe(case)}")
                obj = back = None  # no stray strong references in the harness
                invariant(f"after step {si} {step}")
            # end: drop everything; everything must be reclaimed
            w.handles.clear()
            w.keys.clear()
            obj = back = None
            gc.collect()
            for key, ref in w.weak:
                if ref() is not None and key[0] not in ("Type",) and not alive_elsewhere(ref(), w):
                    raise Violation("not-reclaimed-at-end", f"object for key {key} survives dropping every handle and gc.collect(): {self.describe(case)}")
        finally:
            w.handles.clear()
        if nt:
            stt.mark_nontrivial(case_hash(case))


PROP = C07()
