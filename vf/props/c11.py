"""C11 — adjoints are semiring derivatives of the forward value."""
import itertools
import math

import numpy as np
from hypothesis import strategies as st

from vf.core import robust_gen, Decline, Prop, Violation, case_hash, innermost_funsor_frame
from vf.gen import G, Opts, SeedSource, gen_expr
from vf.lang import Oracle, OutOfDomain, ast_shrinks, binder_names, close, int_points, positions, replace_at, show, typeof, walk
from vf.props.c01 import ast_signature

SEMS = [("add", "mul"), ("logaddexp", "add")]


def gen_case(seed):
    src = SeedSource(seed)
    sem = src.pick(SEMS)
    s, p = sem
    plates = src.pick([False, True])
    # binary uses of the semiring *sum* are generated rarely: they hit the open known finding
    # "adjoint-sum-branch-multiplicity" and are excluded by construction (counted)
    opts = Opts(semiring=sem, ops_binary=(p,), ops_reduce=(s, s, s, p) if plates else (s,), max_depth=src.pick([2, 3, 3]), max_names=4, red_absent=False)
    g = G(src, opts)
    for n in g.sizes:
        g.sizes[n] = min(g.sizes[n], 3)
    depth = g.rint((1, opts.max_depth))
    node = g.expr(("real", ()), depth, set(g.sizes))
    # wrap some leaves: renaming, slice, injective index substitution, Cat
    for path, sub in list(positions(node)):
        if sub[0] != "ten" or not sub[1] or not g.chance(0.35):
            continue
        ins = list(sub[1])
        kname, size = ins[g.rint((0, len(ins) - 1))]
        r = g.rint((0, 3))
        if r == 0:
            t = g.fresh(size)
            w = ("sub", sub, ((kname, ("pyname", t)),))
        elif r == 1:
            w = ("sub", sub, ((kname, g.slice_node(set(g.sizes), size)),))
        elif r == 2:
            perm = g.perm(list(range(size)))
            other = g.fresh(size)
            w = ("sub", sub, ((kname, ("ten", ((other, size),), (), size, tuple(perm), False)),))
        else:
            if size < 2:
                continue
            k = g.rint((1, size - 1))
            pn = g.pick(["p", kname])
            mk = lambda: ("ten", sub[1], sub[2], sub[3], g.real_data(g.numel([s_ for n, s_ in sub[1]])), False)  # noqa: E731
            if g.chance(0.35) and not sub[2]:
                # bare tensors as parts (each with its own length along the part name): every part is a leaf of its own
                def bare(length):
                    ins_ = tuple((pn if n_ == kname else n_, length if n_ == kname else s_) for n_, s_ in sub[1])
                    return ("ten", ins_, sub[2], sub[3], g.real_data(g.numel([s_ for n_, s_ in ins_])), False)

                w = ("cat", kname, (bare(k), bare(size - k)), pn)
            elif size >= 3 and g.chance(0.6):
                cuts = [0, 1, 2, size]
                srcs = [sub, mk(), mk()]
                g.src.r.shuffle(srcs) if hasattr(g.src, "r") else None
                parts_ = tuple(("sub", t_, ((kname, ("slice", pn, cuts[i], cuts[i + 1], 1, size)),)) for i, t_ in enumerate(srcs))
                w = ("cat", kname, parts_, pn)
            else:
                p1 = ("sub", sub, ((kname, ("slice", pn, 0, k, 1, size)),))
                p2 = ("sub", mk(), ((kname, ("slice", pn, k, size, 1, size)),))
                w = ("cat", kname, (p1, p2), pn)
        try:
            cand = replace_at(node, path, w)
            typeof(cand)
            node = cand
        except Exception:
            pass
        break
    # unique binder names (the open finding "adjoint-unmangles-bound-names" is excluded by construction)
    from vf.lang import rename_binders

    node = rename_binders(node)
    # the statement covers *injective* index substitutions only: replace any other index tensor
    for path, sub in list(positions(node)):
        if sub[0] != "sub":
            continue
        new = []
        changed = False
        for kname, v in sub[2]:
            if v[0] == "ten" and len(set(v[4])) != len(v[4]):
                size = v[3]
                other = g.fresh(size)
                v = ("ten", ((other, size),), (), size, tuple(g.perm(list(range(size)))), False)
                changed = True
            new.append((kname, v))
        if changed:
            try:
                cand = replace_at(node, path, ("sub", sub[1], tuple(new)))
                typeof(cand)
                node = cand
            except Exception:
                pass
    # ground root: reduce every remaining free input, so that "the derivative of the root" is unambiguous
    free = typeof(node)[0]
    if free:
        node = ("red", s, node, tuple((n, d[0]) for n, d in sorted(free.items())))
    return {"sem": sem, "ast": signs(node, src), "optimizer": src.pick([False, False, True])}


def gen_case2(seed):
    """Explicit sum-of-products: 2-5 wrapped leaves multiplied together, every name reduced
    (in one or two nested reductions)."""
    src = SeedSource(seed)
    sem = src.pick(SEMS)
    s, p = sem
    g = G(src, Opts(semiring=sem, max_names=4))
    names = sorted(g.sizes)
    for n in names:
        g.sizes[n] = src.pick([2, 3, 3, 2, 1])
    nl = g.rint((2, 5))
    factors = []
    for _ in range(nl):
        ins = g.subset(names, 1, 3)
        leaf = ("ten", tuple((n, g.sizes[n]) for n in ins), (), "real", g.real_data(g.numel([g.sizes[n] for n in ins])), False)
        r = g.rint((0, 9))
        kname = g.pick(ins)
        size = g.sizes[kname]
        same_ = [(a_, b_) for a_ in ins for b_ in ins if a_ < b_ and g.sizes[a_] == g.sizes[b_]]
        if r == 3 and same_:
            # one substitution renames two inputs of the leaf at once: a swap, or a shift onto a third name of that size
            a_, b_ = g.pick(same_)
            third = [n for n in names if g.sizes[n] == g.sizes[a_] and n not in ins]
            if third and g.chance(0.4):
                w = ("sub", leaf, ((a_, ("pyname", b_)), (b_, ("pyname", third[0]))))
            else:
                w = ("sub", leaf, ((a_, ("pyname", b_)), (b_, ("pyname", a_))))
        elif r <= 3:
            w = leaf
        elif r == 4:
            # rename a private input onto a name other factors use (possibly one the leaf keeps: a diagonal)
            cands = [n for n in names if g.sizes[n] == size and n != kname]
            if cands:
                priv = g.fresh(size)
                leaf = ("ten", tuple((priv if n == kname else n, sz) for n, sz in leaf[1]), (), "real", leaf[4], False)
                w = ("sub", leaf, ((priv, ("pyname", g.pick(cands))),))
            else:
                w = leaf
        elif r == 5:
            w = ("sub", leaf, ((kname, g.slice_node(set(names), size)),))
        elif r == 6:
            other = g.fresh(size)
            w = ("sub", leaf, ((kname, ("ten", ((other, size),), (), size, tuple(g.perm(list(range(size)))), False)),))
        else:
            if size < 2:
                w = leaf
            else:
                pn = g.pick(["p", kname])
                mk = lambda: ("ten", leaf[1], (), "real", g.real_data(g.numel([sz for n, sz in leaf[1]])), False)  # noqa: E731
                cuts = [0, 1, 2, size] if size >= 3 and g.chance(0.7) else [0, g.rint((1, size - 1)), size]
                srcs = g.perm([leaf] + [mk() for _ in range(len(cuts) - 2)])
                parts_ = tuple(("sub", t_, ((kname, ("slice", pn, cuts[i], cuts[i + 1], 1, size)),)) for i, t_ in enumerate(srcs))
                w = ("cat", kname, parts_, pn)
        try:
            typeof(w)
        except Exception:
            w = leaf
        factors.append(w)
    if len(factors) >= 2 and g.chance(0.25):
        # the same leaf as a factor twice (not next to each other when there are three or more factors)
        src_i = g.rint((0, len(factors) - 1))
        dup = [f_ for f_ in walk(factors[src_i]) if f_[0] == "ten" and f_[3] == "real"]
        if dup:
            factors = [dup[0]] + factors + [dup[0]] if g.chance(0.5) else factors + [dup[0]]
    node = factors[0]
    for f in factors[1:]:
        node = ("bin", p, node, f) if g.chance(0.5) else ("bin", p, f, node)
    try:
        free = typeof(node)[0]
    except Exception:
        return gen_case(seed)
    fnames = sorted(free)
    if fnames and g.chance(0.4) and len(fnames) > 1:
        k = g.rint((1, len(fnames) - 1))
        inner = g.perm(fnames)[:k]
        node = ("red", s, node, tuple((n, free[n][0]) for n in inner))
        fnames = [n for n in fnames if n not in inner]
    if fnames:
        node = ("red", s, node, tuple((n, free[n][0]) for n in fnames))
    return {"sem": sem, "ast": signs(node, src), "optimizer": src.pick([False, False, True])}


def signs(node, src):
    """With probability 0.4 some leaf entries become negative (both semirings are defined there; the plate adjoints
    divide by the leaf's own entries)."""
    plated = any(n[0] == "red" and n[1] in ("mul",) for n in walk(node))
    if src.pick([0, 1, 1, 1] if plated else [0, 0, 1, 0, 1]) == 0:
        return node
    k = src.pick([2, 3, 4])
    for path, sub in list(positions(node)):
        if sub[0] == "ten" and sub[3] == "real" and src.pick([True, False]):
            data = tuple(-v if (i + len(path)) % k == 0 else v for i, v in enumerate(sub[4]))
            node = replace_at(node, path, sub[:4] + (data,) + sub[5:])
    return node


class C11(Prop):
    id = "C11"
    rule = (
        "sum-product ASTs over 4 names of sizes 1-3 with 1-6 distinct leaf tensors, any reduced subset, optional product reductions (plates), "
        "leaves optionally wrapped in a renaming / Slice / injective index substitution / Cat, with and without apply_optimizer, for (add,mul) and "
        "(logaddexp,add); forward value compared with the oracle; the adjoint of every leaf is compared, at every point of inputs(leaf) u "
        "inputs(root), with the derivative of the oracle's root w.r.t. that leaf entry (exact difference of the multilinear form; 5-point stencil when "
        "a product reduction is present; log of the linear-space derivative for logaddexp/add); non-trivial = >=3 leaves, >=1 reduced name and a "
        "leaf that does not mention some reduced name"
    )
    assumptions = (
        "equal leaf nodes are one Tensor; a leaf occurring k times makes the root a degree-k polynomial in its entries, whose derivative is taken with the 5-point stencil (as for product reductions)",
        "an expression the adjoint tape rejects (NotImplementedError / ValueError) is a decline",
    )
    cases = {"quick": 3200, "thorough": 40000}

    def strategy(self, tier):
        return st.one_of(st.integers(0, 2**40).map(robust_gen(gen_case)), st.integers(0, 2**40).map(robust_gen(gen_case2)), st.integers(0, 2**40).map(robust_gen(gen_case2)))

    @staticmethod
    def has_binary_sum(case):
        """The open known-finding class: some branch below a reduction does not mention the reduced
        variable without being multiplied by a factor that does - a binary use of the semiring sum, or
        a reduction over a variable its argument lacks."""
        s_ = case["sem"][0]
        for n in walk(case["ast"]):
            if n[0] == "bin" and n[1] == s_:
                return True
            if n[0] == "red":
                inp = typeof(n[2])[0]
                if any(x not in inp for x, sz in n[3]):
                    return True
                if n[1] == case["sem"][1]:
                    # a plate whose body has a factor that does not mention the plate variable: unfolding
                    # turns it into a reduction over a variable that factor lacks (same root cause)
                    names = {x for x, sz in n[3]}
                    for leaf in walk(n[2]):
                        if leaf[0] in ("ten", "num") and not names <= set(typeof(leaf)[0]):
                            return True
        return False

    @staticmethod
    def reuses_bound_name(case):
        """Second open known-finding class: the same name bound by two reductions of one expression."""
        b = [x for n in walk(case["ast"]) if n[0] == "red" for x, sz in n[3]]
        return len(b) != len(set(b))

    @staticmethod
    def coupled_substitutions(case):
        """Third open known-finding class: two substitution values (in one map or in stacked maps)
        mention the same variable - a diagonal embedding spread over several substitutions, which
        the per-node Scatter adjoint decouples.  (A single renaming onto a kept input is NOT in
        this class: head handles it.)"""
        def value_names(v):
            return {v[1]} if v[0] in ("pyname", "var", "slice") else (set(typeof(v)[0]) if v[0] not in ("pynum", "num") else set())

        for n in walk(case["ast"]):
            if n[0] != "sub":
                continue
            # the chain of directly stacked substitutions starting at n
            names = []
            m = n
            while m[0] == "sub":
                inp = typeof(m[1])[0]
                for k, v in m[2]:
                    if k in inp:
                        names.extend(sorted(value_names(v)))
                m = m[1]
            if len(names) != len(set(names)):
                return True
            # the same with other nodes in between: a substitution below n (e.g. in one factor of a product that n
            # renames) whose value mentions a variable that a value of n mentions too
            mine = [x for k, v in n[2] if k in typeof(n[1])[0] for x in value_names(v)]
            for d in walk(n[1]):
                if d[0] == "sub" and d is not n:
                    inp = typeof(d[1])[0]
                    if any(x in mine for k, v in d[2] if k in inp for x in value_names(v)):
                        return True
        return False

    known_predicates = {
        "adjoint-sum-branch-multiplicity": lambda case, v: v.bucket.startswith("adjoint-value") and C11.has_binary_sum(case),
        "adjoint-unmangles-bound-names": lambda case, v: v.bucket.startswith("adjoint-value") and C11.reuses_bound_name(case),
        "adjoint-diagonal-substitution": lambda case, v: v.bucket.startswith("adjoint-value") and C11.coupled_substitutions(case),
    }

    def excluded(self, case):
        return self.has_binary_sum(case) or self.reuses_bound_name(case) or self.coupled_substitutions(case)

    def describe(self, case):
        return f"[{'/'.join(case['sem'])}{' +optimizer' if case['optimizer'] else ''}] {show(case['ast'])}"

    def signature(self, case):
        return "/".join(case["sem"]) + "|" + ast_signature(case["ast"]) + ("|opt" if case["optimizer"] else "")

    def shrink_candidates(self, case):
        if case["optimizer"]:
            yield dict(case, optimizer=False)
        for c in ast_shrinks(case["ast"]):
            if any(n[0] == "ten" and n[1] for n in walk(c)) and not typeof(c)[0]:
                yield dict(case, ast=c)

    def check(self, case, stt):
        import funsor.interpretations as I
        from funsor import ops
        from funsor.adjoint import forward_backward
        from funsor.optimizer import apply_optimizer
        from funsor.tensor import Tensor
        from funsor.terms import Number
        from vf.build import Leaves, build, eval_at

        node, sem = case["ast"], tuple(case["sem"])
        s, p = sem
        S, P = getattr(ops, s), getattr(ops, p)
        log_space = s == "logaddexp"
        stt.count("sem:" + s + "/" + p)
        if case["optimizer"]:
            stt.count("with-optimizer")
        # equal leaf nodes are one array / one Tensor object: a leaf may be a factor several times; its adjoint is then
        # the derivative w.r.t. the shared entry (all occurrences perturbed together; the root is a polynomial in it)
        leaves = Leaves(share=True)
        try:
            with I.reflect:  # keep Subs / Cat / Slice wrappers as term nodes
                expr = build(node, leaves)
            if isinstance(expr, (Tensor, Number)):
                raise Decline("expression is a single leaf")
            if case["optimizer"]:
                with I.lazy:
                    expr = apply_optimizer(expr)
            fwd, bwd = forward_backward(S, P, expr)
        except Decline:
            raise
        except Exception as e:
            raise Decline("tape-raised:" + innermost_funsor_frame(e))
        inputs, out = typeof(node)
        if inputs:
            raise Decline("root is not ground")
        for n in walk(node):
            if n[0] == "sub":
                for kk, v in n[2]:
                    if v[0] in ("pynum", "pyname", "var", "slice", "num"):
                        continue
                    vin, vout = typeof(v)
                    if vout[0] == "real":
                        continue
                    o3 = Oracle()
                    vals = [int(o3.ev(v, pt)) for pt in int_points(vin)]
                    if len(set(vals)) != len(vals):
                        raise Decline("non-injective index substitution (outside the statement)")
        orc = Oracle()
        try:
            root_tab = {tuple(sorted(pt.items())): float(orc.ev(node, pt)) for pt in int_points(inputs)}
        except OutOfDomain:
            raise Decline("oracle-out-of-domain")
        for pt in int_points(inputs):
            got = eval_at(fwd, pt)
            if not close(got, root_tab[tuple(sorted(pt.items()))]):
                raise Violation("forward-value", f"at {pt}: forward {np.asarray(got).tolist()} oracle {root_tab[tuple(sorted(pt.items()))]}: {self.describe(case)}")
        has_plate = any(n[0] == "red" and n[1] == p for n in walk(node))
        # leaves: map `ten` nodes (with inputs) to the funsor Tensor objects built for them
        tens = [(path, n) for path, n in positions(node) if n[0] == "ten" and n[3] == "real"]
        by_array = {id(arr): arr for arr, *_ in leaves.arrays}
        keymap = {}
        for k in bwd:
            if isinstance(k, Tensor) and id(k.data) in by_array:
                keymap[(id(k.data), tuple(k.inputs))] = k
        # leaves.arrays is in build order == pre-order of `ten` nodes reached by build (real and integer)
        all_tens = [n for path, n in positions(node) if n[0] == "ten"]
        if any(n not in leaves.shared for n in all_tens):
            raise Decline("leaf bookkeeping mismatch")
        arr_of = {id(n): leaves.shared[n] for n in all_tens}
        occurrences = {}
        for pth, n in positions(node):
            if n[0] == "ten" and n[3] == "real":
                occurrences.setdefault(n, []).append(pth)
        done_leaves = set()
        wrapped_paths = [pth for pth, n in positions(node) if n[0] in ("sub", "cat")]
        checked = 0
        nreduced = sum(len(n[3]) for n in walk(node) if n[0] == "red")
        lacking = False
        for path, leaf in tens:
            if leaf in done_leaves:
                continue
            done_leaves.add(leaf)
            paths = occurrences[leaf]
            multi = len(paths) > 1
            if multi:
                stt.count("leaf-used-several-times")
                if case["optimizer"] and wrapped_paths and any(pth[: len(w)] == w for pth in paths for w in wrapped_paths):
                    # apply_optimizer (run before the tape) evaluates a wrapped occurrence into a new Tensor, which is then a
                    # different leaf of the taped expression: the adjoint of the original Tensor covers the other occurrences only
                    stt.count("shared-leaf-with-a-wrapped-occurrence-under-the-optimizer(skipped)")
                    continue
            arr = arr_of[id(leaf)]
            key = keymap.get((id(arr), tuple(n for n, sz in leaf[1])))
            if key is None:
                # the leaf itself is not a node of the taped expression (e.g. the optimizer / lazy
                # evaluation already renamed or sliced it into a new Tensor): no adjoint to compare
                stt.count("leaf-without-adjoint-entry")
                sub_paths = [pth for pth, n in positions(node) if n[0] == "sub"]
                if sub_paths and any(path[: len(w)] == w for w in sub_paths):
                    continue
                # (a bare part of a Cat keeps its identity: the Cat stays a lazy term until the tape runs, so its parts must
                # receive their share of the adjoint; no entry means a zero adjoint)
                adj = None
            else:
                adj = bwd[key]
            lin = [(n, sz) for n, sz in leaf[1]]
            root_names = sorted(inputs)
            allnames = sorted(set(n for n, sz in lin) | set(root_names))
            sizes = dict(lin)
            sizes.update({n: inputs[n][0] for n in root_names})
            if adj is not None and not set(adj.inputs) <= set(allnames):
                raise Violation("adjoint-inputs", f"adjoint inputs {sorted(adj.inputs)} not among {allnames}: {self.describe(case)}")
            data = np.asarray(leaf[4], dtype=float).reshape(tuple(sz for n, sz in lin))
            for idx in itertools.product(*[range(sz) for n, sz in lin]):
                def root_with(delta):
                    d2 = data.copy()
                    if log_space:
                        d2[idx] = math.log(math.exp(d2[idx]) + delta) if math.exp(d2[idx]) + delta > 0 else float("-inf")
                    else:
                        d2[idx] = d2[idx] + delta
                    leaf2 = ("ten", leaf[1], leaf[2], leaf[3], tuple(d2.reshape(-1).tolist()), False)
                    node2 = node
                    for pth in paths:
                        node2 = replace_at(node2, pth, leaf2)
                    o2 = Oracle()
                    return {tuple(sorted(pt.items())): float(o2.ev(node2, pt)) for pt in int_points(inputs)}

                if has_plate or multi:
                    h = 1e-2 * max(1.0, abs(math.exp(data[idx]) if log_space else data[idx]))
                    tabs = {k: root_with(k * h) for k in (-2, -1, 1, 2)}
                else:
                    tabs = {1: root_with(1.0)}
                for rpt in int_points({n: inputs[n] for n in root_names if n not in sizes or True}):
                    # point over inputs(leaf) u inputs(root): consistent on shared names
                    if any(n in rpt and rpt[n] != i for (n, sz), i in zip(lin, idx)):
                        continue
                    rk = tuple(sorted(rpt.items()))
                    lin_root = (lambda v: math.exp(v)) if log_space else (lambda v: v)
                    if has_plate or multi:
                        f = {k: lin_root(tabs[k][rk]) for k in tabs}
                        deriv = (-f[2] + 8 * f[1] - 8 * f[-1] + f[-2]) / (12 * h)
                    else:
                        deriv = lin_root(tabs[1][rk]) - lin_root(root_tab[rk])
                    q = dict(rpt)
                    q.update({n: i for (n, sz), i in zip(lin, idx)})
                    if adj is None:
                        got = float("-inf") if log_space else 0.0
                    else:
                        try:
                            got = float(eval_at(adj, q))
                        except Decline:
                            raise
                        except Exception as e:
                            raise Decline("adjoint-binding-raised:" + innermost_funsor_frame(e))
                    if log_space:
                        want = math.log(deriv) if deriv > 1e-300 else float("-inf")
                        ok = close(got, want) if not (has_plate or multi) else (got == want or abs(got - want) <= 1e-4 * (1 + abs(want)))
                        if want == float("-inf") and got < -600:
                            ok = True
                        if has_plate or multi:
                            # stencil noise near zero: rounding in the four root values, amplified by 1/h
                            thr = max(1e-9, 64 * 2.3e-16 * max(abs(v) for v in f.values()) / h)
                            if deriv <= thr and (got == float("-inf") or got <= math.log(10 * thr)):
                                ok = True
                    else:
                        want = deriv
                        ok = close(got, want) if not (has_plate or multi) else abs(got - want) <= 1e-4 * (1 + abs(want))
                    if not ok:
                        raise Violation("adjoint-value", f"leaf {show(leaf)} entry {idx} at {q}: adjoint {got} derivative {want}: {self.describe(case)}")
                    checked += 1
            red_names = {x for n in walk(node) if n[0] == "red" for x, sz in n[3]}
            if red_names - {n for n, sz in lin}:
                lacking = True
        stt.count("completed")
        stt.count("adjoint-entries-checked", checked)
        if len(tens) >= 3 and nreduced >= 1 and lacking:
            stt.mark_nontrivial(case_hash(case))


PROP = C11()
