"""C08 — normal forms and contraction-order optimisation preserve value."""
import itertools

import os

import numpy as np
from hypothesis import strategies as st

from vf.core import Decline, Prop, Violation, case_hash, innermost_funsor_frame
from vf.gen import Opts, exprs
from vf.lang import ast_shrinks, close, show, typeof, walk
from vf.props.c01 import ast_signature, evaluate_against_oracle

SEMIRINGS = [("add", "mul"), ("logaddexp", "add"), ("max", "add"), ("min", "add"), ("max", "mul"), ("min", "mul"), ("or", "and")]
ROUTES = ["normalize", "unfold", "optimizer", "optimizer_eager_input"]
EINSUM_BACKENDS = {"numpy": ("add", "mul"), "funsor.einsum.numpy_log": ("logaddexp", "add"), "funsor.einsum.numpy_map": ("max", "add")}
GRID = [0.25 * i for i in range(1, 9)]


def sem_opts(sem, depth, reals, edge=False):
    s, p = sem
    return Opts(semiring=sem, ops_binary=(p, p, s), ops_reduce=(s,), max_depth=depth, reals=reals, max_names=5, edge=edge)


def einsum_cases():
    @st.composite
    def _s(draw):
        R = lambda lo, hi: draw(st.sampled_from(range(lo, hi + 1)))  # noqa: E731
        nops = R(1, 4)
        syms = "abcd"[: R(1, 4)]
        operands = ["".join(c for c in draw(st.permutations(syms)) if R(0, 1)) for _ in range(nops)]
        used = sorted(set("".join(operands)))
        out = "".join(c for c in used if R(0, 2) == 0)
        sizes = {c: R(1, 3) for c in syms}
        return dict(kind="einsum", neginf=bool(R(0, 1)), operands=operands, out=out, sizes=sizes, backend=draw(st.sampled_from(sorted(EINSUM_BACKENDS))), a=R(0, 9973), b=R(1, 97),
                    fn=draw(st.sampled_from(["einsum", "naive_einsum", "naive_contract_einsum"])))

    return _s()


class C08(Prop):
    id = "C08"
    rule = (
        "semiring ASTs (nested sums of products of sums over <=5 names of sizes 1-4, operands renamed/indexed, reduced sets including names some "
        "or all operands lack, optional free real scalars) for each of (add,mul) (logaddexp,add) (max,add) (min,add) (max,mul) (min,mul) on "
        "non-negative data and (or,and) on booleans; routes: build under normalize + eager reinterpretation, unfold + eager, apply_optimizer on a "
        "lazily or normalize-built term; each result is compared with the oracle at every point; normalising twice returns the identical object; "
        "einsum / naive_einsum / naive_contract_einsum on generated equations (<=4 operands x <=4 symbols, every output subset, three "
        "backends) vs numpy; non-trivial = >=3 tensor operands and (a reduced name missing from an operand or a sum nested under a product)"
    )
    assumptions = (
        "reference evaluator vf/lang.py; non-negative data wherever max/min is paired with mul; booleans for or/and",
        "einsum oracle: explicit fold of the semiring over the joint index space (numpy)",
    )
    cases = {"quick": 6000, "thorough": 100000}

    def strategy(self, tier):
        d = 3 if tier == "quick" else 4
        parts = []
        for sem in SEMIRINGS:
            parts.append(exprs(sem_opts(sem, d, False), ("real", ())).map(lambda a, sem=sem: ("ast", sem, a)))
            if sem[0] != "or":
                parts.append(exprs(sem_opts(sem, d, True), ("real", ())).map(lambda a, sem=sem: ("ast", sem, a)))
        asts = st.tuples(st.one_of(*parts), st.sampled_from(ROUTES)).map(lambda t: dict(kind="ast", sem=t[0][1], ast=t[0][2], route=t[1]))

        def seeded(seed):
            from vf.gen import SeedSource, gen_expr

            src = SeedSource(seed)
            sem = src.pick(SEMIRINGS)
            reals = sem[0] != "or" and src.pick([False, True])
            # semiring zeros (-inf) and negative entries where the product is add
            edge = sem[1] == "add" and not reals and src.pick([False, True])
            return dict(kind="ast", sem=sem, route=src.pick(ROUTES), ast=gen_expr(src, sem_opts(sem, d, reals, edge), ("real", ())))

        from vf.core import robust_gen

        uniform = st.integers(0, 2**40).map(robust_gen(seeded))
        return st.one_of(asts, uniform, uniform, uniform, uniform, uniform, einsum_cases())

    def describe(self, case):
        if case["kind"] == "einsum":
            return f"{case['fn']}('{','.join(case['operands'])}->{case['out']}', sizes={case['sizes']}, backend={case['backend']})"
        return f"[{case['route']}; {case['sem'][0]}/{case['sem'][1]}] {show(case['ast'])}"

    def signature(self, case):
        if case["kind"] == "einsum":
            return case["fn"] + "|" + case["backend"]
        return case["route"] + "|" + ast_signature(case["ast"])

    def shrink_candidates(self, case):
        if case["kind"] == "einsum":
            ops_ = list(case["operands"])
            for i in range(len(ops_)):
                if len(ops_) > 1:
                    yield dict(case, operands=ops_[:i] + ops_[i + 1 :], out="".join(c for c in case["out"] if c in "".join(ops_[:i] + ops_[i + 1 :])))
            for c in case["out"]:
                yield dict(case, out=case["out"].replace(c, ""))
            for c, s in case["sizes"].items():
                if s > 1:
                    yield dict(case, sizes=dict(case["sizes"], **{c: s - 1}))
            return
        for c in ast_shrinks(case["ast"]):
            yield dict(case, ast=c)

    def check(self, case, stt):
        if case["kind"] == "einsum":
            return self.check_einsum(case, stt)
        import funsor.interpretations as I
        from funsor.interpreter import reinterpret
        from funsor.optimizer import apply_optimizer, unfold
        from vf.build import build

        node, route = case["ast"], case["route"]
        stt.count("route:" + route)
        stt.count("sem:" + "/".join(case["sem"]))
        import sys

        # apply_optimizer / unfold do not terminate on some terms (recorded as observed behaviour); the generated terms need
        # a few dozen frames, so a lower limit only makes those cases fail faster
        old_limit = sys.getrecursionlimit()
        sys.setrecursionlimit(min(old_limit, int(os.environ.get("VERIF_C08_RECURSION", "420"))))
        try:
            return self._check_ast(case, stt, node, route)
        finally:
            sys.setrecursionlimit(old_limit)

    def _check_ast(self, case, stt, node, route):
        import funsor.interpretations as I
        from funsor.interpreter import reinterpret
        from funsor.optimizer import apply_optimizer, unfold
        from vf.build import build

        try:
            if route == "normalize":
                with I.normalize:
                    t = build(node)
                with I.normalize:
                    n1 = reinterpret(t)
                    n2 = reinterpret(n1)
                if n2 is not n1:
                    raise Violation("normalize-not-idempotent", f"normalising a normalised term gives a different object: {self.describe(case)}")
                r = reinterpret(n1)
            elif route == "unfold":
                with I.lazy:
                    t = build(node)
                with unfold:
                    u = reinterpret(t)
                r = reinterpret(u)
            elif route == "optimizer":
                with I.lazy:
                    t = build(node)
                r = apply_optimizer(t)
            else:
                with I.normalize:
                    t = build(node)
                r = apply_optimizer(t)
        except Violation:
            raise
        except Exception as e:
            raise Decline("raised:" + innermost_funsor_frame(e))
        # (max|min, mul) are semirings on non-negative data only: keep free real parameters non-negative there
        carrier_nonneg = case["sem"][0] in ("max", "min")  # operands may multiply by the free real parameter
        evaluate_against_oracle(node, r, stt, route, nonneg_reals=carrier_nonneg)
        stt.count("completed")
        tens = [n for n in walk(node) if n[0] == "ten"]
        missing = False
        nested = False
        for n in walk(node):
            if n[0] == "red":
                names = {x for x, s in n[3]}
                for tn in walk(n[2]):
                    if tn[0] == "ten" and not names <= {x for x, s in tn[1]}:
                        missing = True
            if n[0] == "bin" and n[1] == case["sem"][1]:
                if any(c[0] == "red" or (c[0] == "bin" and c[1] == case["sem"][0]) for c in (n[2], n[3])):
                    nested = True
        if len(tens) >= 3 and (missing or nested):
            stt.mark_nontrivial(case_hash([node, route]))

    def check_einsum(self, case, stt):
        from collections import OrderedDict

        import funsor.einsum as E
        from funsor import Bint, Tensor
        from vf.build import eval_at

        backend = case["backend"]
        s, p = EINSUM_BACKENDS[backend]
        S = {"add": np.add, "logaddexp": np.logaddexp, "max": np.maximum}[s]
        P = {"mul": np.multiply, "add": np.add}[p]
        sizes = case["sizes"]
        operands = list(case["operands"])
        used = sorted(set("".join(operands)))
        out = "".join(c for c in case["out"] if c in used)
        eqn = ",".join(operands) + "->" + out
        datas = []
        for i, spec in enumerate(operands):
            shape = [sizes[c] for c in spec]
            n = int(np.prod(shape)) if shape else 1
            m = len(GRID)
            vals = [GRID[(case["a"] + 13 * i + case["b"] * k + (k * k) // 3) % m] for k in range(n)]
            if p == "add" and case.get("neginf"):
                # semiring zeros: some entries are -inf (log 0)
                vals = [(-np.inf if (case["a"] + 7 * i + 3 * k) % 4 == 0 else v) for k, v in enumerate(vals)]
            datas.append(np.asarray(vals, dtype=float).reshape(shape))
        fs = [Tensor(d, OrderedDict((c, Bint[sizes[c]]) for c in spec)) for d, spec in zip(datas, operands)]
        if len({id(f) for f in fs}) != len(fs):
            raise Decline("duplicate operand objects")
        stt.count("einsum:" + case["fn"] + ":" + backend.split(".")[-1])
        try:
            r = getattr(E, case["fn"])(eqn, *fs, backend=backend)
        except Exception as e:
            raise Decline("einsum-raised:" + innermost_funsor_frame(e))
        red = [c for c in used if c not in out]
        if not set(r.inputs) <= set(out):
            raise Violation("einsum-inputs", f"inputs {list(r.inputs)} vs output '{out}': {self.describe(case)}")
        for oidx in itertools.product(*[range(sizes[c]) for c in out]):
            env = dict(zip(out, oidx))
            acc = None
            for ridx in itertools.product(*[range(sizes[c]) for c in red]):
                env.update(dict(zip(red, ridx)))
                prod = None
                for d, spec in zip(datas, operands):
                    v = d[tuple(env[c] for c in spec)]
                    prod = v if prod is None else P(prod, v)
                acc = prod if acc is None else S(acc, prod)
            got = eval_at(r, dict(zip(out, oidx)))
            if not close(got, acc):
                raise Violation("einsum-value", f"at {dict(zip(out, oidx))}: funsor {np.asarray(got).tolist()} expected {acc}: {self.describe(case)}")
        stt.count("completed")
        if len(operands) >= 3 and red:
            stt.mark_nontrivial(case_hash(case))


PROP = C08()
