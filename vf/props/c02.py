"""C02 — every rewrite step of an exact interpretation preserves value."""
import numpy as np
from hypothesis import strategies as st

from vf.core import robust_gen, Decline, HarnessError, Prop, Violation, case_hash, innermost_funsor_frame
from vf.gen import Opts, SeedSource, gen_expr
from vf.lang import NotNormalizable, Oracle, OutOfDomain, Undecided, ast_shrinks, close, int_points, npoints, real_points, show, typeof

MODES = ["eager", "eager", "lazy", "normalize", "sequential", "unfold", "optimizer", "moment_matching"]
SEMS = [("add", "mul"), ("logaddexp", "add"), ("max", "add"), ("min", "add"), ("max", "mul"), ("min", "mul"), ("or", "and")]


def gen_case(seed):
    src = SeedSource(seed)
    family = src.pick(["general", "general", "reals", "semiring", "semiring", "gauss_chain", "gauss_int", "binders", "shaped", "shaped", "constant", "delta", "delta_ast", "delta_ast", "subs", "subs", "subs", "subs"])
    if family == "delta":
        return gen_delta_case(src)
    if family == "subs":
        # deliberately interacting substitution maps (C04's generator): one map, or two maps applied one after the other, so
        # that the Subs-of-Subs fusion rules fire on values that mention later keys
        from vf.gen import gen_sub_case

        c = gen_sub_case(src, Opts(max_depth=2, reals=True, gauss=src.pick([False, True])))
        ast = ("sub", c["f"], tuple(c["subs"]))
        if c.get("subs2"):
            ast = ("sub", ast, tuple(c["subs2"]))
        typeof(ast)
        # (the Subs-of-Subs fusion rules only fire while the inner substitution is still a term: lazy twice as often there)
        return {"family": family, "ast": ast, "mode": src.pick(["eager", "lazy", "lazy", "normalize"] if c.get("subs2") else ["eager", "eager", "lazy", "normalize"])}
    if family == "shaped":
        # array-valued outputs: reshape / getslice / getitem / einsum / matmul / stack and cat of outputs / Lambda
        ast = gen_expr(src, Opts(max_depth=3, shaped=True, reals=src.pick([False, True, True])), src.pick([("real", ()), ("real", (2,)), ("real", (3,)), ("real", (2, 2)), ("real", (1, 3))]))
    elif family == "delta_ast":
        # point masses in the term language: Delta + f in both orders, stacked Deltas, reductions and integrals against unit-mass
        # Deltas, substitution of a Delta's own name (hit / miss / rename), Independent over a batched point
        ast = gen_expr(src, Opts(max_depth=2, deltas=True, reals=True, max_names=3), ("real", ()))
        return {"family": family, "ast": ast, "mode": src.pick(["eager", "eager", "lazy", "normalize", "sequential"])}
    elif family == "constant":
        # Constant(extra inputs, x) under unary / binary ops, reductions over its own and its declared inputs, substitution
        ast = gen_expr(src, Opts(max_depth=3, consts=True, reals=src.pick([False, True]), ops_reduce=("add", "add", "mul", "logaddexp", "max")), ("real", ()))
    elif family == "general":
        ast = gen_expr(src, Opts(max_depth=3), None)
    elif family == "reals":
        ast = gen_expr(src, Opts(max_depth=3, reals=True), None)
    elif family == "binders":
        ast = gen_expr(src, Opts(max_depth=3, max_names=3, binders_extra=True, reals=True), None)
    elif family == "semiring":
        sem = src.pick(SEMS)
        s, p = sem
        ast = gen_expr(src, Opts(semiring=sem, ops_binary=(p, p, s), ops_reduce=(s,), max_depth=3, reals=sem[0] != "or" and src.pick([False, True])), ("real", ()))
        return {"family": family, "sem": sem, "ast": ast, "mode": src.pick(["normalize", "unfold", "optimizer", "eager", "sequential"])}
    elif family == "gauss_chain":
        from vf.props.c12 import gen_chain

        ast = gen_chain(src, Opts(gauss=True, max_depth=2))
        return {"family": family, "ast": ast, "mode": src.pick(["eager", "lazy", "normalize"])}
    else:
        from vf.props.c13 import gen_case as g13

        c = g13(src)
        return {"family": family, "ast": c["ast"], "mode": src.pick(["eager", "eager", "moment_matching", "lazy"])}
    return {"family": family, "ast": ast, "mode": src.pick(MODES)}


def deep_mutation(node, src):
    """The same term with one operator changed at nesting depth >= 2 (so the two terms agree on the outer levels of their
    types): exercises whatever is remembered between two dispatches of look-alike terms."""
    from vf.lang import positions, replace_at

    swaps_un = {"neg": ["exp", "abs"], "exp": ["neg", "abs"], "abs": ["neg", "exp"], "log": ["sqrt"], "sqrt": ["log"], "tanh": ["sigmoid"], "sigmoid": ["tanh"]}
    swaps_bin = {"add": ["mul", "sub"], "mul": ["add"], "sub": ["add"], "max": ["min"], "min": ["max"], "logaddexp": ["add"]}
    cands = []
    for path, sub in positions(node):
        if len(path) < 2:
            continue
        if sub[0] == "un" and sub[1] in swaps_un:
            cands.append((path, ("un", src.pick(swaps_un[sub[1]])) + tuple(sub[2:])))
        elif sub[0] == "bin" and sub[1] in swaps_bin:
            cands.append((path, ("bin", src.pick(swaps_bin[sub[1]])) + tuple(sub[2:])))
    if not cands:
        return None
    path, new = src.pick(cands)
    out = replace_at(node, path, new)
    typeof(out)
    return out


def gen_case_pair(seed):
    """Two look-alike programs run one after the other in one process (half of the time in reverse order)."""
    src = SeedSource(seed)
    c = gen_case(src.pick(range(2**30)))
    # rules whose patterns constrain the third nesting level and deeper live in the Gaussian / Integrate / Finitary families
    want_integrand = src.pick([0, 1]) == 1  # half of the pairs: an Integrate whose integrand is a sum / transformed Gaussian
    for _ in range(12):
        if want_integrand:
            if c["family"] == "gauss_int" and c["ast"][0] == "integrate" and c["ast"][2][0] in ("bin", "un"):
                break
        elif c["family"] in ("gauss_int", "gauss_chain", "shaped") or src.pick([0, 0, 1]):
            break
        c = gen_case(src.pick(range(2**30)))
    if c["family"] in ("delta", "semiring"):
        return c  # (a changed operator would leave the semiring, e.g. a negative factor under (min, mul))
    try:
        ast2 = deep_mutation(c["ast"], src)
    except Exception:  # noqa: BLE001
        ast2 = None
    if ast2 is None:
        return c
    if src.pick([False, True]):
        c["ast"], ast2 = ast2, c["ast"]
    c["ast2"] = ast2
    return c


DELTA_PROGS = ["d+f", "f+d", "d-f", "dd", "dd+f", "d+(d+f)", "reduce", "reduce_rev", "reduce2", "integrate", "independent", "subs", "subs_var"]


def gen_delta_case(src):
    """A program over one or two Delta terms (built directly; Delta has no node in the AST language)."""
    from vf.gen import G, WVALS

    g = G(src, Opts(max_names=3))
    names = sorted(g.sizes)

    def delta(name):
        real = g.chance(0.5)
        batch = g.subset(names, 0, 2)
        bins = [(n, g.sizes[n]) for n in batch]
        nb = g.numel([s_ for n, s_ in bins])
        if real:
            shape = g.pick([(), (), (2,)])
            size = None
            point = g.expand(WVALS, nb * (2 if shape else 1))
        else:
            shape = ()
            size = g.rint((2, 4))
            point = g.int_data(size, nb)
        ldb = g.subset(batch, 0, len(batch))
        ld = g.expand([0.0, 0.0, 0.5, -1.0, 0.25], g.numel([g.sizes[n] for n in ldb]))
        return dict(name=name, real=real, shape=list(shape), size=size, batch=bins, point=list(point), ld_batch=[(n, g.sizes[n]) for n in ldb], ld=list(ld))

    d1, d2 = delta("v"), delta("w")
    fins = [(n, g.sizes[n]) for n in g.subset(names, 0, 2)]
    ftab = g.expand([0.25, 0.5, 1.0, 1.5, 2.0, -0.5], g.numel([s_ for n, s_ in fins]) * (d1["size"] or 1) * (d2["size"] or 1))
    return {"family": "delta", "mode": "eager", "ast": ("num", 0.0, "real"), "prog": g.pick(DELTA_PROGS), "d1": d1, "d2": d2, "fins": fins, "ftab": list(ftab),
            "f_uses_w": g.chance(0.5), "subs_off": g.chance(0.5)}


def delta_program(case):
    """Runs the Delta program of `case` under the current interpretation; returns the final funsor."""
    from collections import OrderedDict

    from funsor import Bint, Reals, Tensor, Variable, ops
    from funsor.delta import Delta
    from funsor.integrate import Integrate
    from funsor.terms import Independent

    def mk(d):
        bins = [tuple(b) for b in d["batch"]]
        shape = tuple(d["shape"])
        P = np.asarray(d["point"], dtype=float if d["real"] else np.int64).reshape(tuple(s_ for n, s_ in bins) + shape)
        ldb = [tuple(b) for b in d["ld_batch"]]
        LD = np.asarray(d["ld"], dtype=float).reshape(tuple(s_ for n, s_ in ldb))
        point = Tensor(P, OrderedDict((n, Bint[s_]) for n, s_ in bins), "real" if d["real"] else d["size"])
        ld = Tensor(LD, OrderedDict((n, Bint[s_]) for n, s_ in ldb))
        return Delta(d["name"], point, ld), (Reals[shape] if d["real"] else Bint[d["size"]])

    (d1, dom1), (d2, dom2) = mk(case["d1"]), mk(case["d2"])
    fins = [tuple(x) for x in case["fins"]]
    prog = case["prog"]
    two = prog in ("dd+f", "d+(d+f)", "reduce2") and case["f_uses_w"]

    def fpart(name, dom, spec, tab_axis):
        v = Variable(name, dom)
        if spec["real"]:
            vs = v if not spec["shape"] else v.sum()
            return None, vs
        return (name, Bint[spec["size"]]), None

    # f: a table over the integer Delta variables and fins, plus an affine/quadratic part in the real Delta variables
    tab_inputs = OrderedDict()
    real_terms = []
    for name, dom, spec in [("v", dom1, case["d1"])] + ([("w", dom2, case["d2"])] if two else []):
        ti, rt = fpart(name, dom, spec, None)
        if ti is not None:
            tab_inputs[ti[0]] = ti[1]
        else:
            real_terms.append(rt)
    for n, s_ in fins:
        tab_inputs[n] = Bint[s_]
    cnt = int(np.prod([d.size for d in tab_inputs.values()])) if tab_inputs else 1
    data = np.asarray((case["ftab"] * (cnt // max(1, len(case["ftab"])) + 1))[:cnt], dtype=float).reshape(tuple(d.size for d in tab_inputs.values()))
    f = Tensor(data, tab_inputs)
    for i, rt in enumerate(real_terms):
        f = f * rt + rt * rt * (0.5 + i)
    V = frozenset([Variable("v", dom1)])
    VW = frozenset([Variable("v", dom1), Variable("w", dom2)])
    if prog == "d+f":
        return d1 + f
    if prog == "f+d":
        return f + d1
    if prog == "d-f":
        return d1 - f
    if prog == "dd":
        return d1 + d2
    if prog == "dd+f":
        return (d1 + d2) + f
    if prog == "d+(d+f)":
        return d1 + (d2 + f)
    if prog == "reduce":
        return (d1 + f).reduce(ops.logaddexp, "v")
    if prog == "reduce_rev":
        return (f + d1).reduce(ops.logaddexp, "v")
    if prog == "reduce2":
        return ((d1 + d2) + f).reduce(ops.logaddexp, frozenset(["v", "w"]))
    if prog == "integrate":
        return Integrate(d1, f, V)
    if prog == "independent":
        if not case["d1"]["real"] or not case["d1"]["batch"]:
            return d1 + f
        return Independent(d1, "vv", case["d1"]["batch"][0][0], "v")
    if prog == "subs_var":
        return (d1 + f)(v="w_renamed")
    # subs: a value equal to / different from the point, or a batched value
    bins = [tuple(b) for b in case["d1"]["batch"]]
    P = np.asarray(case["d1"]["point"], dtype=float if case["d1"]["real"] else np.int64).reshape(tuple(s_ for n, s_ in bins) + tuple(case["d1"]["shape"]))
    val = P if not case["subs_off"] else (P + 1 if case["d1"]["real"] else (P + 1) % case["d1"]["size"])
    value = Tensor(val, OrderedDict((n, Bint[s_]) for n, s_ in bins), "real" if case["d1"]["real"] else case["d1"]["size"])
    return (d1 + f)(v=value)


def _subterms(t, seen=None):
    from funsor.terms import Funsor

    seen = set() if seen is None else seen
    if id(t) in seen:
        return
    seen.add(id(t))
    if isinstance(t, Funsor):
        yield t
        for a in getattr(t, "_ast_values", ()):
            yield from _subterms(a, seen)
    elif isinstance(t, (tuple, frozenset)):
        for a in t:
            yield from _subterms(a, seen)


def ground_compare(lhs, result):
    """Fallback for firings whose sides have no AST: both sides are evaluated by funsor itself on complete
    assignments of their inputs (every integer assignment up to a cap; real inputs at the points of the Delta terms
    that mention them, and off those points).  The relation checked is 'rewriting, then evaluating at a point'
    == 'evaluating the un-rewritten lazy term at the point'.  Returns number of points or (kind, msg)."""
    import itertools

    from funsor.delta import Delta
    from funsor.tensor import Tensor
    from funsor.terms import Number

    extra = set(result.inputs) - set(lhs.inputs)
    if extra:
        return ("introduces-inputs", f"replacement depends on {sorted(extra)} which the original does not have")
    if result.output.shape != lhs.output.shape:
        return ("changes-shape", f"replacement has output {result.output}, original {lhs.output}")
    ints = [(k, d) for k, d in lhs.inputs.items() if d.dtype != "real"]
    if any(d.shape for k, d in ints):
        raise Undecided("array-valued integer input")
    reals = [(k, d) for k, d in lhs.inputs.items() if d.dtype == "real"]
    points = {}
    for t in list(_subterms(lhs)) + list(_subterms(result)):
        if isinstance(t, Delta):
            for name, (point, ld) in t.terms:
                points.setdefault(name, point)
    space = list(itertools.product(*[range(d.size) for k, d in ints]))
    if len(space) > 64:
        space = space[:: max(1, len(space) // 64)]
    n = 0
    for idx in space:
        ienv = {k: Number(i, d.size) for (k, d), i in zip(ints, idx)}
        for variant in range(2 if reals else 1):
            env = dict(ienv)
            for j, (k, d) in enumerate(reals):
                val = None
                if k in points and set(points[k].inputs) <= set(ienv) and points[k].output == d:
                    p = points[k](**{a: ienv[a] for a in points[k].inputs})
                    if isinstance(p, (Tensor, Number)):
                        val = np.asarray(p.data, dtype=float)
                if val is None:
                    val = np.full(d.shape, 0.25 * (1 + (len(k) + j) % 5))
                if variant == 1 and j == 0:
                    val = val + 0.375
                env[k] = Tensor(np.asarray(val, dtype=float))
            try:
                a = lhs(**{k: v for k, v in env.items() if k in lhs.inputs})
                b = result(**{k: v for k, v in env.items() if k in result.inputs})
            except Exception as e:  # noqa: BLE001
                raise Undecided("ground evaluation raised " + type(e).__name__)
            if not isinstance(a, (Tensor, Number)) or not isinstance(b, (Tensor, Number)) or a.inputs or b.inputs:
                raise Undecided("ground evaluation stays lazy")
            try:
                av_ = np.asarray(a.data, dtype=float)
                if np.isnan(av_).any() or (av_ == np.inf).any():
                    continue  # the original is undefined here (division by zero, overflow): the point is outside its domain
            except (TypeError, ValueError):
                pass
            if not close(np.asarray(a.data), np.asarray(b.data)):
                shown = {k: np.asarray(v.data).tolist() for k, v in env.items()}
                return ("changes-value(ground)", f"at {shown}: original evaluates to {np.asarray(a.data).tolist()}, replacement to {np.asarray(b.data).tolist()}")
            n += 1
    return n


def run_program(node, mode):
    import funsor.interpretations as I
    from funsor.interpreter import reinterpret
    from funsor.optimizer import apply_optimizer, unfold
    from vf.build import build

    if mode == "eager":
        return build(node)
    if mode in ("lazy", "normalize"):
        with getattr(I, mode):
            t = build(node)
        return reinterpret(t)
    if mode in ("sequential", "moment_matching"):
        with getattr(I, mode):
            return build(node)
    with I.lazy:
        t = build(node)
    if mode == "unfold":
        with unfold:
            u = reinterpret(t)
        return reinterpret(u)
    return apply_optimizer(t)


def compare_firing(lhs_ast, rhs_ast, nonneg):
    """Raises Violation-like tuple (kind, message) or returns number of points compared."""
    inputs, out = typeof(lhs_ast)
    rin, rout = typeof(rhs_ast)
    extra = set(rin) - set(inputs)
    if extra:
        return ("introduces-inputs", f"replacement depends on {sorted(extra)} which the original does not have")
    if tuple(rout[1]) != tuple(out[1]):
        return ("changes-shape", f"replacement has output shape {rout[1]}, original {out[1]}")
    if npoints(inputs) > 1500:
        raise Undecided("too many points")
    from vf.lang import walk as _walk

    if any(n_[0] == "ten" and n_[3] == "real" and any(v_ == float("inf") for v_ in n_[4]) for n_ in _walk(lhs_ast)):
        # +inf entries (e.g. minus a point mass) are outside the carrier of the log-space rules (inf - inf inside the shift trick)
        raise OutOfDomain("+inf data")
    o1, o2 = Oracle(), Oracle()
    n = 0
    from vf.lang import delta_hit_points

    for ip in int_points(inputs):
        for rp in real_points(inputs, 2, nonneg=nonneg) + delta_hit_points(lhs_ast, inputs, ip):
            pt = dict(ip)
            pt.update(rp)
            try:
                a = o1.ev(lhs_ast, pt)
            except NotNormalizable:
                continue
            b = o2.ev(rhs_ast, {k: v for k, v in pt.items() if k in rin})
            if np.isnan(np.asarray(a, dtype=float)).any():
                raise OutOfDomain("nan")
            if not close(a, b):
                a_, b_ = np.asarray(a, dtype=float), np.asarray(b, dtype=float)
                if a_.shape == b_.shape and np.all(np.isclose(a_, b_, rtol=1e-6, atol=1e-9, equal_nan=True) | ((a_ == -np.inf) & np.isfinite(b_) & (b_ < -700.0)) | ((b_ == -np.inf) & np.isfinite(a_) & (a_ < -700.0))):
                    continue  # exp underflow inside the floating-point reference evaluator (log(exp(v)) for v < -745)
                return ("changes-value", f"at {pt}: original {np.asarray(a).tolist()} replacement {np.asarray(b).tolist()}")
            n += 1
    return n


class C02(Prop):
    id = "C02"
    rule = (
        "a recorder wrapped around the dispatch attribute of the eight dispatched interpretations logs every rule firing (interpretation, rule "
        "function, class, arguments, non-None result) while a mixed driver runs generated programs (general / real-parameter / binder / semiring / "
        "Gaussian-chain / Gaussian-integral families) under eager, lazy+reinterpret, normalize+reinterpret, sequential, unfold, apply_optimizer and "
        "moment_matching; each firing is decided by converting the reflected left-hand side cls(*args) and the replacement to the AST language and "
        "comparing the reference evaluator's values on the whole integer input space x 2 real points (closed forms for Gaussian integrals), and by "
        "inputs(replacement) <= inputs(original); distinct = (rule function, classes of the arguments); non-trivial = a non-identity replacement; "
        "the evidence lists which registered rule functions fired and which never did"
    )
    assumptions = (
        "term -> AST conversion (vf/term2ast.py) is validated on every program by oracle(to_ast(reflect-built term)) == oracle(ast)",
        "firings whose sides contain constructs without a reference meaning here (Delta, MarkovProduct, distributions, real reductions without closed form) are undecided and counted",
        "carriers: non-negative real points where max/min meets mul; moment_matching firings on genuine mixtures are approximate by design and not compared",
    )
    cases = {"quick": 4800, "thorough": 80000}

    def strategy(self, tier):
        single = st.integers(0, 2**40).map(robust_gen(gen_case))
        return st.one_of(single, single, single, st.integers(0, 2**40).map(robust_gen(gen_case_pair)))

    def describe(self, case):
        if case["family"] == "delta":
            ds = [f"Delta({d['name']}:{'real' + str(d['shape']) if d['real'] else 'bint' + str(d['size'])}, batch={[tuple(b) for b in d['batch']]}, point={d['point'][:6]}, ld={d['ld'][:4]})" for d in (case["d1"], case["d2"])]
            return f"[delta/{case['prog']}] d1={ds[0]} d2={ds[1]} f over {[tuple(x) for x in case['fins']]} f_uses_w={case['f_uses_w']} subs_off={case['subs_off']}"
        return f"[{case['family']}/{case['mode']}] {show(case['ast'])}" + (f"  THEN  {show(case['ast2'])}" if case.get("ast2") is not None else "")

    def finalize(self, coverage):
        from vf.recorder import registered_rules

        fired = sorted(set(coverage.get("notes", {}).get("rules_fired", [])))
        fired_fns = {f.split(":", 1)[1] for f in fired}
        registered = registered_rules()
        coverage["rule_functions_registered"] = len(registered)
        coverage["rule_functions_fired_with_nonidentity_rewrite"] = len(fired_fns & registered)
        coverage["rules_fired"] = fired
        coverage["rules_never_fired"] = sorted(registered - fired_fns)
        coverage.get("notes", {}).pop("rules_fired", None)

    def signature(self, case):
        return case["mode"] + (":" + case["prog"] if case["family"] == "delta" else "")

    def shrink_candidates(self, case):
        if case["family"] == "delta":
            for key in ("d1", "d2"):
                d = case[key]
                if d["batch"]:
                    yield dict(case, **{key: dict(d, batch=[], ld_batch=[], point=d["point"][: (2 if d["shape"] else 1)], ld=d["ld"][:1])})
            if case["fins"]:
                yield dict(case, fins=[])
            return
        if case.get("ast2") is not None:
            yield {k: v for k, v in case.items() if k != "ast2"}
            yield dict({k: v for k, v in case.items() if k != "ast2"}, ast=case["ast2"])
            return
        for c in ast_shrinks(case["ast"]):
            yield dict(case, ast=c)

    def check(self, case, stt):
        import funsor.interpretations as I
        from funsor.terms import Funsor
        from vf.build import build
        from vf.recorder import Recorder, rule_name
        from vf.term2ast import Unsupported, to_ast

        node, mode = case["ast"], case["mode"]
        stt.count("mode:" + mode)
        stt.count("family:" + case["family"])
        # cross-check of the term -> AST conversion on this program
        try:
            if case["family"] == "delta":
                stt.count("prog:" + case["prog"])
                raise Unsupported("Delta program")
            if any(n[0] == "approx" for n in __import__("vf.lang", fromlist=["walk"]).walk(node)):
                raise Unsupported("lazy Approximate leaks mangled names (open finding of C05)")
            with I.reflect:
                t0 = build(node)
            back = to_ast(t0)
            inputs, out = typeof(node)
            if npoints(inputs) <= 400:
                o1, o2 = Oracle(), Oracle()
                for rp in real_points(inputs, 1):
                    for ip in int_points(inputs):
                        pt = dict(ip)
                        pt.update(rp)
                        try:
                            a, b = o1.ev(node, pt), o2.ev(back, pt)
                        except (OutOfDomain, Undecided, NotNormalizable):
                            break
                        if not close(a, b):
                            raise HarnessError(f"term2ast disagrees with the AST oracle on {show(node)} at {pt}: {a} vs {b}")
        except (Unsupported, Undecided):
            stt.count("crosscheck-unsupported")
        except HarnessError:
            raise
        except Exception:
            stt.count("crosscheck-build-declined")
        rec = Recorder()
        final = None
        try:
            with rec.recording():
                if case["family"] == "delta":
                    delta_program(case)
                else:
                    final = run_program(node, mode)
                    if case.get("ast2") is not None:
                        stt.count("pair-of-look-alike-programs")
                        run_program(case["ast2"], mode)
        except Exception as e:
            stt.decline("program-raised:" + innermost_funsor_frame(e))
        # the composition of all steps: if every step preserved the value, the final result has the program's value (this
        # also sees a step whose reflected left-hand side is itself mis-built, e.g. by a wrong renaming of bound names)
        if final is not None and mode != "moment_matching" and not any(n[0] == "approx" for n in __import__("vf.lang", fromlist=["walk"]).walk(node)):
            from vf.props.c01 import evaluate_against_oracle

            try:
                evaluate_against_oracle(node, final, stt, "composition-of-all-steps", nonneg_reals=case.get("sem", ("", ""))[0] in ("max", "min"))
                stt.count("final-result-checked")
            except Decline as d:
                stt.count("final-result-undecided:" + d.bucket[:40])
        nonneg = case.get("sem", ("", ""))[0] in ("max", "min") or case["family"] != "semiring"
        # non-semiring families use mixed-sign points except where max/min reductions meet products (oracle rule)
        nonneg = case.get("sem", ("", ""))[0] in ("max", "min")
        seen = set()
        seen_types = set()
        from vf.recorder import dispatched_interpretations

        interps_by_name = {i.__name__: i for i in dispatched_interpretations()}
        fired = stt.notes.setdefault("rules_fired", [])
        for iname, fn, cls, args, result in rec.firings:
            name = f"{iname}:{rule_name(fn)}"
            if mode == "moment_matching" and case["family"] == "gauss_int":
                # moment matching of a genuine mixture is approximate by design, and every enclosing firing
                # returns the downstream (approximated) result
                stt.count("skipped:moment_matching-on-mixture")
                continue
            if not isinstance(result, Funsor):
                continue
            # the rule that fired is the one an uncached resolution of the same argument types selects (a rule applied
            # outside its pattern may "preserve" nothing at all)
            try:
                from funsor.typing import deep_type, get_origin, typing_wrap

                interp = interps_by_name[iname]
                disp = interp.registry.registry.get(get_origin(cls))
                if disp is not None:
                    types = tuple(map(typing_wrap, map(deep_type, args)))
                    tkey = (iname, id(disp), types)
                    if tkey not in seen_types:
                        seen_types.add(tkey)
                        fresh = disp.dispatch(*types)
                        stt.count("dispatch-rechecked")
                        if fresh is not fn and getattr(fresh, "default", fresh) is not getattr(fn, "default", fn):
                            raise Violation(f"rule-fired-outside-its-pattern|{name}", f"{name} fired for {getattr(cls, '__name__', cls)} on ({', '.join(type(a).__name__ for a in args)}) although resolution without the dispatch cache selects {rule_name(fresh) if fresh is not None else None}; program {self.describe(case)[:300]}")
            except Violation:
                raise
            except Exception:  # noqa: BLE001
                stt.count("dispatch-recheck-not-possible")
            if getattr(cls, "__name__", "") == "Approximate":
                # the reflected Approximate mangles its (still visible) variables: open finding of C05
                stt.count("skipped:Approximate(open finding C05)")
                continue
            lhs = None
            la = None
            try:
                with I.reflect:  # the renaming of bound names inside the constructor must not evaluate anything
                    lhs = I.reflect.interpret(cls, *args)
            except Exception as e:
                # a request the constructor rejects (e.g. a Contraction over a non-distributive pair that
                # normalize rewrites before construction): take its meaning from the arguments
                from funsor.cnf import Contraction as _C

                if getattr(cls, "__name__", "") == "Contraction" or cls is _C:
                    try:
                        from vf.term2ast import contraction_ast

                        terms_ = args[3] if len(args) == 4 and isinstance(args[3], tuple) else args[3:]
                        la = contraction_ast(args[0], args[1], args[2], terms_)
                    except Exception:
                        la = None
                if la is None:
                    stt.count("undecided:lhs-not-constructible:" + type(e).__name__ + ":" + getattr(cls, "__name__", "?"))
                    continue
            if result is lhs:
                continue
            key = (name, id(lhs) if lhs is not None else show(la), id(result))
            if key in seen:
                continue
            seen.add(key)
            ra = None
            try:
                try:
                    if la is None:
                        la = to_ast(lhs)
                    ra = to_ast(result)
                    res = compare_firing(la, ra, nonneg)
                except Unsupported:
                    if lhs is None:
                        raise
                    # no reference meaning for one side (Delta, MarkovProduct, ...): funsor's own evaluation on complete
                    # assignments decides whether the rewrite changed the value
                    res = ground_compare(lhs, result)
                    stt.count("firing-decided-by-ground-evaluation")
                    la = la if la is not None else ("num", 0.0, "real")
            except (Unsupported, Undecided) as u:
                stt.count("undecided:" + str(u)[:40])
                continue
            except OutOfDomain:
                stt.count("undecided:outside-op-domain")
                continue
            except HarnessError as h:
                stt.count("undecided:ill-typed-conversion")
                continue
            except RecursionError:
                stt.count("undecided:recursion")
                continue
            if isinstance(res, tuple):
                kind, msg = res
                if ra is None:
                    raise Violation(f"rewrite-{kind}|{name}", f"rule {name} rewrote {str(lhs)[:300]}  ->  {str(result)[:300]} : {msg}; program {self.describe(case)[:400]}")
                raise Violation(f"rewrite-{kind}|{name}", f"rule {name} rewrote {show(la)[:300]}  ->  {show(ra)[:300]} : {msg}; program {self.describe(case)[:300]}")
            stt.count("firing-checked")
            if name not in fired:
                fired.append(name)
            argsig = tuple(type(a).__name__.split("[")[0] for a in args)
            stt.mark_nontrivial(name + "|" + ",".join(argsig))
        stt.count("completed")


PROP = C02()
