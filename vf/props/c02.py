"""C02 — every rewrite step of an exact interpretation preserves value."""
import numpy as np
from hypothesis import strategies as st

from vf.core import robust_gen, Decline, HarnessError, Prop, Violation, case_hash, innermost_funsor_frame
from vf.gen import Opts, SeedSource, gen_expr
from vf.lang import NotNormalizable, Oracle, OutOfDomain, Undecided, ast_shrinks, close, int_points, npoints, real_points, show, typeof

MODES = ["eager", "eager", "lazy", "normalize", "sequential", "unfold", "optimizer", "moment_matching"]
SEMS = [("add", "mul"), ("logaddexp", "add"), ("max", "add"), ("min", "add"), ("max", "mul"), ("min", "mul"), ("or", "and")]


def gen_case(seed):
    src = SeedSource(seed)
    family = src.pick(["general", "general", "reals", "semiring", "semiring", "gauss_chain", "gauss_int", "binders", "shaped", "shaped"])
    if family == "shaped":
        # array-valued outputs: reshape / getslice / getitem / einsum / matmul / stack and cat of outputs / Lambda
        ast = gen_expr(src, Opts(max_depth=3, shaped=True, reals=src.pick([False, True, True])), src.pick([("real", ()), ("real", (2,)), ("real", (3,)), ("real", (2, 2)), ("real", (1, 3))]))
    elif family == "general":
        ast = gen_expr(src, Opts(max_depth=3), None)
    elif family == "reals":
        ast = gen_expr(src, Opts(max_depth=3, reals=True), None)
    elif family == "binders":
        ast = gen_expr(src, Opts(max_depth=3, max_names=3, binders_extra=True, reals=True), None)
    elif family == "semiring":
        sem = src.pick(SEMS)
        s, p = sem
        ast = gen_expr(src, Opts(semiring=sem, ops_binary=(p, p, s), ops_reduce=(s,), max_depth=3, reals=sem[0] != "or" and src.pick([False, True])), ("real", ()))
        return {"family": family, "sem": sem, "ast": ast, "mode": src.pick(["normalize", "unfold", "optimizer", "eager", "sequential"])}
    elif family == "gauss_chain":
        from vf.props.c12 import gen_chain

        ast = gen_chain(src, Opts(gauss=True, max_depth=2))
        return {"family": family, "ast": ast, "mode": src.pick(["eager", "lazy", "normalize"])}
    else:
        from vf.props.c13 import gen_case as g13

        c = g13(src)
        return {"family": family, "ast": c["ast"], "mode": src.pick(["eager", "eager", "moment_matching", "lazy"])}
    return {"family": family, "ast": ast, "mode": src.pick(MODES)}


def run_program(node, mode):
    import funsor.interpretations as I
    from funsor.interpreter import reinterpret
    from funsor.optimizer import apply_optimizer, unfold
    from vf.build import build

    if mode == "eager":
        return build(node)
    if mode in ("lazy", "normalize"):
        with getattr(I, mode):
            t = build(node)
        return reinterpret(t)
    if mode in ("sequential", "moment_matching"):
        with getattr(I, mode):
            return build(node)
    with I.lazy:
        t = build(node)
    if mode == "unfold":
        with unfold:
            u = reinterpret(t)
        return reinterpret(u)
    return apply_optimizer(t)


def compare_firing(lhs_ast, rhs_ast, nonneg):
    """Raises Violation-like tuple (kind, message) or returns number of points compared."""
    inputs, out = typeof(lhs_ast)
    rin, rout = typeof(rhs_ast)
    extra = set(rin) - set(inputs)
    if extra:
        return ("introduces-inputs", f"replacement depends on {sorted(extra)} which the original does not have")
    if tuple(rout[1]) != tuple(out[1]):
        return ("changes-shape", f"replacement has output shape {rout[1]}, original {out[1]}")
    if npoints(inputs) > 1500:
        raise Undecided("too many points")
    o1, o2 = Oracle(), Oracle()
    n = 0
    for rp in real_points(inputs, 2, nonneg=nonneg):
        for ip in int_points(inputs):
            pt = dict(ip)
            pt.update(rp)
            try:
                a = o1.ev(lhs_ast, pt)
            except NotNormalizable:
                continue
            b = o2.ev(rhs_ast, {k: v for k, v in pt.items() if k in rin})
            if np.isnan(np.asarray(a, dtype=float)).any():
                raise OutOfDomain("nan")
            if not close(a, b):
                return ("changes-value", f"at {pt}: original {np.asarray(a).tolist()} replacement {np.asarray(b).tolist()}")
            n += 1
    return n


class C02(Prop):
    id = "C02"
    rule = (
        "a recorder wrapped around the dispatch attribute of the eight dispatched interpretations logs every rule firing (interpretation, rule "
        "function, class, arguments, non-None result) while a mixed driver runs generated programs (general / real-parameter / binder / semiring / "
        "Gaussian-chain / Gaussian-integral families) under eager, lazy+reinterpret, normalize+reinterpret, sequential, unfold, apply_optimizer and "
        "moment_matching; each firing is decided by converting the reflected left-hand side cls(*args) and the replacement to the AST language and "
        "comparing the reference evaluator's values on the whole integer input space x 2 real points (closed forms for Gaussian integrals), and by "
        "inputs(replacement) <= inputs(original); distinct = (rule function, classes of the arguments); non-trivial = a non-identity replacement; "
        "the evidence lists which registered rule functions fired and which never did"
    )
    assumptions = (
        "term -> AST conversion (vf/term2ast.py) is validated on every program by oracle(to_ast(reflect-built term)) == oracle(ast)",
        "firings whose sides contain constructs without a reference meaning here (Delta, MarkovProduct, distributions, real reductions without closed form) are undecided and counted",
        "carriers: non-negative real points where max/min meets mul; moment_matching firings on genuine mixtures are approximate by design and not compared",
    )
    cases = {"quick": 1600, "thorough": 60000}

    def strategy(self, tier):
        return st.integers(0, 2**40).map(robust_gen(gen_case))

    def describe(self, case):
        return f"[{case['family']}/{case['mode']}] {show(case['ast'])}"

    def finalize(self, coverage):
        from vf.recorder import registered_rules

        fired = sorted(set(coverage.get("notes", {}).get("rules_fired", [])))
        fired_fns = {f.split(":", 1)[1] for f in fired}
        registered = registered_rules()
        coverage["rule_functions_registered"] = len(registered)
        coverage["rule_functions_fired_with_nonidentity_rewrite"] = len(fired_fns & registered)
        coverage["rules_fired"] = fired
        coverage["rules_never_fired"] = sorted(registered - fired_fns)
        coverage.get("notes", {}).pop("rules_fired", None)

    def signature(self, case):
        return case["mode"]

    def shrink_candidates(self, case):
        for c in ast_shrinks(case["ast"]):
            yield dict(case, ast=c)

    def check(self, case, stt):
        import funsor.interpretations as I
        from funsor.terms import Funsor
        from vf.build import build
        from vf.recorder import Recorder, rule_name
        from vf.term2ast import Unsupported, to_ast

        node, mode = case["ast"], case["mode"]
        stt.count("mode:" + mode)
        stt.count("family:" + case["family"])
        # cross-check of the term -> AST conversion on this program
        try:
            if any(n[0] == "approx" for n in __import__("vf.lang", fromlist=["walk"]).walk(node)):
                raise Unsupported("lazy Approximate leaks mangled names (open finding of C05)")
            with I.reflect:
                t0 = build(node)
            back = to_ast(t0)
            inputs, out = typeof(node)
            if npoints(inputs) <= 400:
                o1, o2 = Oracle(), Oracle()
                for rp in real_points(inputs, 1):
                    for ip in int_points(inputs):
                        pt = dict(ip)
                        pt.update(rp)
                        try:
                            a, b = o1.ev(node, pt), o2.ev(back, pt)
                        except (OutOfDomain, Undecided, NotNormalizable):
                            break
                        if not close(a, b):
                            raise HarnessError(f"term2ast disagrees with the AST oracle on {show(node)} at {pt}: {a} vs {b}")
        except (Unsupported, Undecided):
            stt.count("crosscheck-unsupported")
        except HarnessError:
            raise
        except Exception:
            stt.count("crosscheck-build-declined")
        rec = Recorder()
        try:
            with rec.recording():
                run_program(node, mode)
        except Exception as e:
            stt.decline("program-raised:" + innermost_funsor_frame(e))
        nonneg = case.get("sem", ("", ""))[0] in ("max", "min") or case["family"] != "semiring"
        # non-semiring families use mixed-sign points except where max/min reductions meet products (oracle rule)
        nonneg = case.get("sem", ("", ""))[0] in ("max", "min")
        seen = set()
        fired = stt.notes.setdefault("rules_fired", [])
        for iname, fn, cls, args, result in rec.firings:
            name = f"{iname}:{rule_name(fn)}"
            if mode == "moment_matching" and case["family"] == "gauss_int":
                # moment matching of a genuine mixture is approximate by design, and every enclosing firing
                # returns the downstream (approximated) result
                stt.count("skipped:moment_matching-on-mixture")
                continue
            if not isinstance(result, Funsor):
                continue
            if getattr(cls, "__name__", "") == "Approximate":
                # the reflected Approximate mangles its (still visible) variables: open finding of C05
                stt.count("skipped:Approximate(open finding C05)")
                continue
            lhs = None
            la = None
            try:
                lhs = I.reflect.interpret(cls, *args)
            except Exception as e:
                # a request the constructor rejects (e.g. a Contraction over a non-distributive pair that
                # normalize rewrites before construction): take its meaning from the arguments
                from funsor.cnf import Contraction as _C

                if getattr(cls, "__name__", "") == "Contraction" or cls is _C:
                    try:
                        from vf.term2ast import contraction_ast

                        terms_ = args[3] if len(args) == 4 and isinstance(args[3], tuple) else args[3:]
                        la = contraction_ast(args[0], args[1], args[2], terms_)
                    except Exception:
                        la = None
                if la is None:
                    stt.count("undecided:lhs-not-constructible:" + type(e).__name__ + ":" + getattr(cls, "__name__", "?"))
                    continue
            if result is lhs:
                continue
            key = (name, id(lhs) if lhs is not None else show(la), id(result))
            if key in seen:
                continue
            seen.add(key)
            try:
                if la is None:
                    la = to_ast(lhs)
                ra = to_ast(result)
                res = compare_firing(la, ra, nonneg)
            except (Unsupported, Undecided) as u:
                stt.count("undecided:" + str(u)[:40])
                continue
            except OutOfDomain:
                stt.count("undecided:outside-op-domain")
                continue
            except HarnessError as h:
                stt.count("undecided:ill-typed-conversion")
                continue
            except RecursionError:
                stt.count("undecided:recursion")
                continue
            if isinstance(res, tuple):
                kind, msg = res
                raise Violation(f"rewrite-{kind}|{name}", f"rule {name} rewrote {show(la)[:300]}  ->  {show(ra)[:300]} : {msg}; program {self.describe(case)[:300]}")
            stt.count("firing-checked")
            if name not in fired:
                fired.append(name)
            argsig = tuple(type(a).__name__.split("[")[0] for a in args)
            stt.mark_nontrivial(name + "|" + ",".join(argsig))
        stt.count("completed")


PROP = C02()
