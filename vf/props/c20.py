"""C20 — terms and the arrays behind them are never mutated."""
import hashlib

import numpy as np
from hypothesis import strategies as st

from vf.core import robust_gen, Decline, Prop, Violation, case_hash, innermost_funsor_frame
from vf.gen import SeedSource
from vf.lang import show, typeof, walk
from vf.props.c02 import gen_case as gen_program

FOLLOWUPS = ["align", "reduce_add", "reduce_logaddexp", "reduce_max", "subs0", "add_self", "exp", "neg", "to_data", "sample", "compile", "adjoint", "optimizer", "getitem", "sum_out", "rename", "slice", "pickle", "scatter", "scatter", "blocks", "linalg", "linalg", "slice_index", "slice_index"]


def gen_case(seed):
    src = SeedSource(seed)
    c = gen_program(src.pick(range(2**30)))
    c["readonly"] = src.pick([False, True])
    c["followups"] = [src.pick(FOLLOWUPS) for _ in range(src.pick([2, 3, 4, 5]))]
    c["rng"] = src.pick(range(10000))
    return c


def arrays_of(term, seen=None, out=None):
    """All numpy arrays reachable from a funsor term through its constructor arguments."""
    from funsor.terms import Funsor

    if out is None:
        out, seen = [], set()
    if id(term) in seen:
        return out
    seen.add(id(term))
    if isinstance(term, np.ndarray):
        out.append(term)
    elif isinstance(term, Funsor):
        for v in getattr(term, "_ast_values", ()):
            arrays_of(v, seen, out)
    elif isinstance(term, (tuple, frozenset, list)):
        for v in term:
            arrays_of(v, seen, out)
    elif isinstance(term, dict):
        for v in term.values():
            arrays_of(v, seen, out)
    return out


def snapshot(term):
    arrs = arrays_of(term)
    return dict(
        inputs=tuple((k, repr(d)) for k, d in term.inputs.items()),
        output=repr(term.output),
        arrays=[(id(a), a.shape, str(a.dtype), hashlib.sha1(np.ascontiguousarray(a).tobytes()).hexdigest()) for a in arrs],
        ref=term,
    )


def compare_snapshot(snap, what):
    term = snap["ref"]
    now = snapshot(term)
    if now["inputs"] != snap["inputs"] or now["output"] != snap["output"]:
        return f"{what}: inputs/output of a held funsor changed: {snap['inputs']} {snap['output']} -> {now['inputs']} {now['output']}"
    if [a[:3] for a in now["arrays"]] != [a[:3] for a in snap["arrays"]]:
        return f"{what}: a held funsor now refers to different arrays"
    for a, b in zip(snap["arrays"], now["arrays"]):
        if a[3] != b[3]:
            return f"{what}: data of a held funsor changed (array of shape {a[1]})"
    return None


class C20(Prop):
    id = "C20"
    rule = (
        "the mixed program driver of C02 (general / real-parameter / binder / semiring / Gaussian families under eager, lazy, normalize, "
        "sequential, unfold, optimizer, moment_matching) runs with every leaf array produced by a factory that records bytes, shape, dtype and "
        "strides and - in half of the cases - makes the array read-only; the reflect-built term and the evaluated result are held and "
        "snapshotted, then 2-5 follow-up operations (align, reduce with add/logaddexp/max, substitution, r+r, exp, neg, to_data, sample, compile and "
        "run, adjoint, optimizer, getitem, output sum, rename, slice, pickle) are applied to them; afterwards every leaf array must be bit-identical, "
        "every held funsor must have the same inputs, output and array contents, and no 'read-only' error may come out of funsor; non-trivial = "
        "some result shares memory with a leaf, or a non-eager interpretation was used"
    )
    assumptions = (
        "numpy's writeable flag turns a write through any view of a read-only leaf into a ValueError",
        "sha1 of the array bytes detects any change of contents",
    )
    cases = {"quick": 4000, "thorough": 80000}

    def strategy(self, tier):
        return st.integers(0, 2**40).map(robust_gen(gen_case))

    def describe(self, case):
        return f"[{case['family']}/{case['mode']}; readonly={case['readonly']}; then {case['followups']}] {show(case['ast'])}"

    def signature(self, case):
        return case["mode"] + "|" + ",".join(sorted(set(case["followups"])))

    def shrink_candidates(self, case):
        f = list(case["followups"])
        for i in range(len(f)):
            yield dict(case, followups=f[:i] + f[i + 1:])
        from vf.lang import ast_shrinks

        for c in ast_shrinks(case["ast"]):
            yield dict(case, ast=c)

    def check(self, case, stt):
        import pickle
        from collections import OrderedDict

        import funsor.interpretations as I
        from funsor import Bint, Variable, ops, to_data
        from funsor.adjoint import forward_backward
        from funsor.compiler import compile_funsor
        from funsor.interpreter import reinterpret
        from funsor.optimizer import apply_optimizer, unfold
        from funsor.tensor import Tensor
        from funsor.terms import Funsor, Number, Slice
        from vf.build import Leaves, build

        node, mode = case["ast"], case["mode"]
        leaves = Leaves(readonly=case["readonly"])
        stt.count("mode:" + mode)
        stt.count("readonly" if case["readonly"] else "writable")
        held = []
        readonly_error = [None]
        sub_snaps = []  # (funsor, inputs items, output) of every sub-term, taken right after it was built

        def on_built(f):
            if isinstance(f, Funsor) and len(sub_snaps) < 400:
                sub_snaps.append((f, tuple((k, repr(d)) for k, d in f.inputs.items()), repr(f.output)))

        leaves.on_built = on_built

        def guard(fn, what):
            try:
                return fn()
            except ValueError as e:
                if "read-only" in str(e) or "readonly" in str(e) or "not writeable" in str(e):
                    readonly_error[0] = f"{what}: {e} @ {innermost_funsor_frame(e)}"
                stt.decline(what + ":ValueError")
            except Exception as e:
                stt.decline(what + ":" + type(e).__name__)
            return None

        def program():
            if mode == "eager":
                return build(node, leaves)
            if mode in ("lazy", "normalize"):
                with getattr(I, mode):
                    t = build(node, leaves)
                held.append(snapshot(t))
                return reinterpret(t)
            if mode in ("sequential", "moment_matching"):
                with getattr(I, mode):
                    return build(node, leaves)
            with I.lazy:
                t = build(node, leaves)
            held.append(snapshot(t))
            if mode == "unfold":
                with unfold:
                    u = reinterpret(t)
                return reinterpret(u)
            return apply_optimizer(t)

        def reflect_build():
            with I.reflect:
                return build(node, leaves)

        t0 = guard(reflect_build, "reflect-build")
        if isinstance(t0, Funsor):
            held.append(snapshot(t0))
        np.random.seed(case["rng"])
        r = guard(program, "program")
        if isinstance(r, Funsor):
            held.append(snapshot(r))
        targets = [x for x in (r, t0) if isinstance(x, Funsor)]
        shares = False
        if isinstance(r, Tensor):
            shares = any(np.shares_memory(r.data, a[0]) for a in leaves.arrays)

        def follow(x, op):
            ints = [k for k, d in x.inputs.items() if d.dtype != "real" and not d.shape]
            if op == "align" and len(x.inputs) >= 2:
                return x.align(tuple(reversed(list(x.inputs))))
            if op.startswith("reduce_") and ints and x.output.dtype == "real":
                return x.reduce(getattr(ops, op.split("_")[1]), ints[0])
            if op == "subs0" and ints:
                return x(**{ints[0]: 0})
            if op == "add_self" and x.output.dtype == "real":
                return x + x
            if op == "exp" and x.output.dtype == "real":
                return x.exp()
            if op == "neg" and x.output.dtype == "real":
                return -x
            if op == "to_data" and not x.inputs:
                return to_data(x)
            if op == "to_data" and ints and isinstance(x, Tensor):
                return to_data(x, {k: -1 - i - len(x.output.shape) for i, k in enumerate(x.inputs)})
            if op == "sample" and ints and x.output.dtype == "real" and not x.output.shape:
                return x.sample(frozenset(ints[:1]), OrderedDict(particle=Bint[2]))
            if op == "compile":
                prog = compile_funsor(x)
                kw = {}
                for k, d in x.inputs.items():
                    kw[k] = np.zeros(d.shape) + 0.5 if d.dtype == "real" else np.asarray(0)
                return prog(**kw)
            if op == "adjoint" and case["family"] == "semiring" and case["sem"][0] in ("add", "logaddexp") and case["sem"][1] in ("mul", "add") and case["sem"] in (["add", "mul"], ["logaddexp", "add"], ("add", "mul"), ("logaddexp", "add")):
                return forward_backward(getattr(ops, case["sem"][0]), getattr(ops, case["sem"][1]), x)
            if op == "optimizer":
                with I.lazy:
                    return apply_optimizer(x)
            if op == "getitem" and x.output.shape:
                return x[0]
            if op == "sum_out" and x.output.shape and x.output.dtype == "real":
                return x.sum()
            if op == "rename" and ints:
                return x(**{ints[0]: "zz_renamed"})
            if op == "slice" and ints:
                n = x.inputs[ints[0]].size
                return x(**{ints[0]: Slice(ints[0], 0, n, 2, n)})
            if op == "pickle":
                return pickle.loads(pickle.dumps(x))
            if op == "scatter" and ints and isinstance(x, Tensor):
                # destin[i = perm[n]] = x[n] for a permutation held in a monitored array (bijective: same shape as the source)
                from funsor.terms import Scatter

                n_ = ints[case["rng"] % len(ints)]
                size = x.inputs[n_].size
                perm = tuple(int(v) for v in np.random.RandomState(case["rng"]).permutation(size))
                idx = Tensor(leaves.make(("ten", ((n_, size),), (), size, perm, False)), OrderedDict([(n_, Bint[size])]), size)
                return Scatter(ops.add, (("zz_scattered", idx),), x, frozenset({Variable(n_, Bint[size])}))
            if op == "blocks":
                # the block assembly helpers, fed with the monitored arrays; one block is assigned twice
                from funsor.gaussian import BlockMatrix, BlockVector

                vecs = [a[0].reshape(-1) for a in leaves.arrays if a[0].dtype == float and a[0].size][:3]
                if not vecs:
                    return None
                total = sum(v.size for v in vecs)
                bv = BlockVector((total,))
                o = 0
                for v in vecs:
                    bv[o : o + v.size] = v
                    o += v.size
                bv[0 : vecs[0].size] = vecs[-1][: vecs[0].size] if vecs[-1].size >= vecs[0].size else vecs[0]
                out_v = bv.as_tensor()
                k = vecs[0].size
                m0 = np.outer(vecs[0], vecs[0])
                held_m = leaves.make(("ten", (), (k, k), "real", tuple(float(v) for v in m0.reshape(-1)), False))
                bm = BlockMatrix((2 * k, 2 * k))
                bm[0:k, 0:k] = held_m
                bm[k : 2 * k, k : 2 * k] = held_m
                bm[0:k, 0:k] = held_m * 0.5 if case["rng"] % 2 else held_m
                return Tensor(np.concatenate([out_v.reshape(-1), bm.as_tensor().reshape(-1)]))
            if op == "slice_index":
                # a held index tensor substituted into symbolic Slices (offset / strided / full) and into a lazy term indexed by one
                size = 5 + case["rng"] % 3
                outs = []
                for start, stop, step in ((2, 5, 1), (0, 3, 1), (1, size, 2), (1, 4, 1), (0, size, 2)):
                    sl = Slice("zz_j", start, stop, step, size)
                    n_in = sl.inputs["zz_j"].size
                    data_ = tuple(int(v) for v in np.random.RandomState(case["rng"] + start + step).randint(0, n_in, size=4))
                    idx = Tensor(leaves.make(("ten", (("zz_n", 4),), (), n_in, data_, False)), OrderedDict([("zz_n", Bint[4])]), n_in)
                    outs.append(sl(zz_j=idx))
                    v_ = Variable("zz_v", Bint[size])
                    from funsor import Real

                    w_ = Variable("zz_w", Real)
                    with I.lazy:
                        lz = (w_ + Tensor(np.arange(float(size)), OrderedDict([("zz_i", Bint[size])])))(zz_i=sl)
                    outs.append(lz(zz_j=idx))
                return outs[-1] if outs else None
            if op == "linalg":
                # the array-level linear algebra behind Gaussians, called on monitored matrices the caller holds -
                # including degenerate ones (v v^T is singular, the factorisation fails or needs a fallback there)
                from funsor import Real, Reals
                from funsor.gaussian import Gaussian

                vecs = [a[0].reshape(-1)[:4] for a in leaves.arrays if a[0].dtype == float and a[0].size >= 2][:2]
                if not vecs:
                    vecs = [np.array([1.0, -2.0, 0.5])]
                done = 0
                for v in vecs:
                    k = v.size
                    flavour = (case["rng"] + done) % 4
                    m0 = np.outer(v, v)  # singular
                    if flavour == 1:
                        m0 = m0 + np.eye(k)  # well conditioned
                    elif flavour == 2:
                        m0 = np.stack([m0 + np.eye(k), m0])  # a batch with one degenerate member
                    elif flavour == 3:
                        m0 = m0 - 1e-9 * np.eye(k)  # slightly indefinite
                    batch = m0.shape[:-2]
                    bnames = tuple(("zz_b%d" % i_, n_) for i_, n_ in enumerate(batch))
                    mat = leaves.make(("ten", bnames, (k, k), "real", tuple(float(x_) for x_ in m0.reshape(-1)), False))
                    vec = leaves.make(("ten", bnames, (k,), "real", tuple(float(x_) for x_ in np.broadcast_to(v, batch + (k,)).reshape(-1)), False))
                    ins = OrderedDict((n_, Bint[sz]) for n_, sz in bnames)
                    # fully masked tables (every slice all -inf) and one holding +inf: the stabilising shift is degenerate
                    masked = leaves.make(("ten", bnames, (k, k), "real", tuple(float("-inf") for _ in range(m0.size)), False))
                    posinf = leaves.make(("ten", bnames, (k, k), "real", tuple(float("inf") if j_ % 3 == 0 else 0.5 for j_ in range(m0.size)), False))
                    ins_x = OrderedDict(list(ins.items()) + [("zz_x", Reals[k])])
                    calls = [
                        lambda: ops.cholesky(mat),
                        lambda: ops.cholesky(Tensor(mat, ins)),
                        lambda: Gaussian(info_vec=vec, precision=mat, inputs=ins_x),
                        lambda: Gaussian(mean=vec, covariance=mat, inputs=ins_x),
                        lambda: Gaussian(mean=vec, precision=mat, inputs=ins_x),
                        lambda: ops.cholesky_inverse(mat),
                        lambda: ops.cholesky_solve(vec[..., None], mat),
                        lambda: ops.triangular_solve(vec[..., None], mat),
                        lambda: ops.triangular_inv(mat),
                        lambda: ops.logsumexp(mat, -1),
                        lambda: ops.logsumexp(masked, -1),
                        lambda: ops.logsumexp(masked, None),
                        lambda: Tensor(masked, ins).reduce(ops.logaddexp),
                        lambda: ops.logsumexp(posinf, -1),
                        lambda: ops.qr(mat),
                    ]
                    for c_ in calls:
                        try:
                            out_ = c_()
                            if hasattr(out_, "_precision"):
                                out_._precision, out_._covariance, out_.log_normalizer  # lazily cached factorisations
                            stt.count("linalg-call-completed")
                        except Exception as e:
                            if isinstance(e, ValueError) and ("read-only" in str(e) or "readonly" in str(e) or "not writeable" in str(e)):
                                readonly_error[0] = f"linalg: {e} @ {innermost_funsor_frame(e)}"
                            stt.count("linalg-call-raised")
                    done += 1
                return Number(done)
            return None

        for op in case["followups"]:
            for x in targets:
                res = guard(lambda x=x, op=op: follow(x, op), "followup:" + op)
                if isinstance(res, Tensor) and any(np.shares_memory(res.data, a[0]) for a in leaves.arrays):
                    shares = True
                if res is not None:
                    stt.count("followup:" + op)
        # hidden state: the same program on the same (shared, hash-consed) operands gives the same result a second time -
        # a lazily cached array inside an operand (e.g. a Gaussian's covariance) counts as part of the term
        def value_of(x):
            if isinstance(x, Tensor):
                return ("tensor", tuple(x.inputs), np.asarray(x.data, dtype=float))
            if hasattr(x, "white_vec") and hasattr(x, "prec_sqrt"):
                return ("gaussian", tuple(x.inputs), np.concatenate([np.asarray(x.white_vec, dtype=float).reshape(-1), np.asarray(x.prec_sqrt, dtype=float).reshape(-1)]))
            arrs = [np.asarray(a_, dtype=float).reshape(-1) for a_ in arrays_of(x) if np.asarray(a_).dtype.kind in "fiub"]
            if arrs and len(arrs) <= 8:
                # e.g. a Tensor + Gaussian mixture: all arrays the result holds, in construction order
                return (type(x).__name__.split("[")[0], tuple(x.inputs), np.concatenate(arrs))
            return None

        first_value = value_of(r) if isinstance(r, Funsor) else None
        if first_value is not None and mode != "eager" or (first_value is not None and case["family"] in ("gauss_int", "gauss_chain")):
            np.random.seed(case["rng"])
            r_again = guard(program, "program-again")
            again = value_of(r_again) if isinstance(r_again, Funsor) else None
            if again is not None and any("__BOUND" in n_ for n_ in again[1] + first_value[1]):
                again = None  # lazily built Approximate exposes freshly numbered bound names (open finding of C05)
            if again is not None and (again[0] != first_value[0] or set(again[1]) != set(first_value[1]) or again[2].shape != first_value[2].shape or not np.allclose(again[2], first_value[2], rtol=1e-9, atol=1e-12, equal_nan=True)):
                raise Violation("program-result-changes-on-repetition", f"the same program on the same operands gave {first_value[2].reshape(-1)[:6].tolist()} and then {again[2].reshape(-1)[:6].tolist()} (hidden state of an operand was modified): {self.describe(case)}")
            if again is not None:
                stt.count("program-repeated")
        if readonly_error[0]:
            raise Violation("write-through-read-only-leaf", f"{readonly_error[0]}: {self.describe(case)}")
        changed = leaves.changed()
        if changed:
            raise Violation("leaf-array-mutated", f"{len(changed)} user-supplied array(s) changed (shape {changed[0][1]}): {self.describe(case)}")
        for f, ins, out in sub_snaps:
            now = tuple((k, repr(d)) for k, d in f.inputs.items())
            if now != ins or repr(f.output) != out:
                raise Violation("subterm-inputs-mutated", f"a sub-term {type(f).__name__} had inputs {ins} when it was built and has {now} now: {self.describe(case)}")
        for snap in held:
            msg = compare_snapshot(snap, "after follow-ups")
            if msg:
                raise Violation("held-funsor-mutated", f"{msg}: {self.describe(case)}")
        stt.count("completed")
        if shares:
            stt.count("result-shares-memory-with-leaf")
        if shares or mode != "eager":
            stt.mark_nontrivial(case_hash(case))


PROP = C20()
