"""C12 — Gaussian pointwise algebra agrees with the dense quadratic form."""
import itertools

import numpy as np
from hypothesis import strategies as st
from vf.core import robust_gen

from vf.core import Decline, Prop, Violation, case_hash, innermost_funsor_frame
from vf.gen import DIAG, G, REAL_POOL, SVALS, WVALS, HypSource, Opts, SeedSource, gauss_leaf
from vf.lang import ast_shrinks, close, show, show_value, typeof, walk
from vf.props.c01 import ast_signature, evaluate_against_oracle

MODES = ["eager", "eager", "lazy", "compress"]
LOCS = ["mean", "info_vec", "white_vec"]
SCALES = ["precision", "covariance", "scale_tril", "prec_sqrt"]


def numel(sh):
    return int(np.prod(sh)) if sh else 1


def real_value(g, name, shape, avail, inputs):
    """A value for real input `name`: tensor (with batch inputs), number, or affine expression."""
    r = g.rint((0, 6))
    if r == 6:
        # affine, or only affine-looking (x + h(x), products of factors in one variable, non-additive reductions)
        from vf.gen import near_affine

        return near_affine(g, shape, avail)
    if r == 0 and shape == ():
        return ("pynum", g.pick([0.5, -0.25, 1.0]))
    if r <= 2:
        names = g.subset(avail, 0, 2)
        ins = tuple((n, g.sizes[n]) for n in names)
        n = g.numel([s for _, s in ins]) * numel(shape)
        return ("ten", ins, tuple(shape), "real", g.expand(WVALS, n), False)
    # affine in a real variable of the same shape (possibly the key itself)
    cands = [n for n, sh in REAL_POOL.items() if sh == tuple(shape)]
    src = g.pick(cands)
    var = ("var", src, ("real", tuple(shape)))
    n = numel(shape)
    scale = ("ten", (), tuple(shape), "real", g.expand([0.5, 1.0, -1.0, 2.0], n), False)
    shift = ("ten", (), tuple(shape), "real", g.expand(WVALS, n), False)
    if r == 3:
        return ("bin", "add", ("bin", "mul", var, scale), shift)
    if r == 4 and len(shape) == 1:
        m = ("ten", (), (shape[0], shape[0]), "real", g.expand([0.5, 1.0, -0.5, 0.0, 1.0], shape[0] ** 2), False)
        return ("bin", "add", ("bin", "matmul", var, m), shift)
    if shape == () and "y" not in inputs:
        return ("unp", "sum", (None, False), ("var", "y", ("real", (2,))))
    return ("bin", "sub", shift, var)


def gen_chain(src, opts):
    g = G(src, opts)
    avail = set(g.sizes)
    node = gauss_leaf(g, avail, zero_row_p=0.15)
    depth = g.rint((1, 3))
    for _ in range(depth):
        inp = typeof(node)[0]
        ints = sorted(n for n, d in inp.items() if d[0] != "real")
        reals = sorted(n for n, d in inp.items() if d[0] == "real")
        op = g.pick(["add", "add", "subs_real", "subs_real", "subs_int", "rename", "affine_or_all", "align", "neg", "minus", "cat", "cat", "wrapped_subs", "wrapped_subs"])
        if op == "wrapped_subs":
            # substitute into a lazy term whose input order differs from the Gaussian's:
            # the substitution then reaches the Gaussian in non-input order
            if len(reals) < 2:
                node = ("bin", "add", node, gauss_leaf(g, avail, nreal=3))
                inp = typeof(node)[0]
                reals = sorted(n for n, d in inp.items() if d[0] == "real")
            if len(reals) >= 2:
                ks = g.perm(reals)
                lead = ("var", ks[-1], ("real", inp[ks[-1]][1]))
                if inp[ks[-1]][1] != ():
                    lead = ("unp", "sum", (None, False), lead)
                wrapped = ("bin", "add", lead, node)
                keys = ks[-2:] if len(ks) > 2 or g.chance(0.5) else ks
                vals = []
                for kname in keys:
                    names = g.subset(avail, 0, 1)
                    ins = tuple((n, g.sizes[n]) for n in names)
                    cnt = g.numel([s for _, s in ins]) * numel(inp[kname][1])
                    vals.append((kname, ("ten", ins, tuple(inp[kname][1]), "real", g.expand(WVALS, cnt), False)))
                node = ("sub", wrapped, tuple(vals))
            continue
        if op == "add":
            other = gauss_leaf(g, avail, zero_row_p=0.15)
            if g.chance(0.4) and len(reals) <= 3:
                # the same inputs in another order (real and batch inputs permuted independently)
                other = gauss_leaf(g, avail, real_names=g.perm(reals))
                own_ints = [n for n in ints]
                if own_ints and set(own_ints) != {n for n, s_ in other[1]}:
                    pi = g.perm(own_ints)
                    order, a_, b_ = [], list(pi), [n for n, sh in other[2]]
                    while a_ or b_:
                        if a_ and (not b_ or g.chance(0.5)):
                            order.append(a_.pop(0))
                        else:
                            order.append(b_.pop(0))
                    nb = g.numel([g.sizes.get(n, inp[n][0]) for n in pi])
                    D = sum(numel(sh) for n, sh in other[2])
                    rank = other[4]
                    S_, W_ = [], []
                    for _b in range(nb):
                        off = g.expand(SVALS, D * rank)
                        dg = g.expand(DIAG, D)
                        S_.extend(dg[i] if i == j else off[i * rank + j] for i in range(D) for j in range(rank))
                        W_.extend(g.expand(WVALS, rank))
                    other = ("gauss", tuple((n, inp[n][0]) for n in pi), other[2], tuple(order), rank, tuple(W_), tuple(S_))
            node = ("bin", "add", node, other) if g.chance(0.5) else ("bin", "add", other, node)
        elif op == "minus":
            node = ("bin", "sub", node, gauss_leaf(g, avail))
        elif op == "neg":
            node = ("un", "neg", node)
        elif op in ("subs_real", "affine_or_all") and reals:
            keys = reals if op == "affine_or_all" and g.chance(0.5) else g.subset(reals, 1, len(reals))
            subs = tuple((kname, real_value(g, kname, inp[kname][1], avail, inp)) for kname in keys)
            node = ("sub", node, subs)
        elif op == "subs_int" and ints:
            keys = g.subset(ints, 1, 2)
            subs = []
            for kname in keys:
                size = inp[kname][0]
                r = g.rint((0, 3))
                if r == 0:
                    subs.append((kname, ("pynum", g.rint((0, size - 1)))))
                elif r == 1:
                    subs.append((kname, g.ten(avail, (size, ()))))
                elif r == 2:
                    subs.append((kname, g.slice_node(avail, size)))
                else:
                    subs.append((kname, ("pyname", g.fresh(size))))
            node = ("sub", node, tuple(subs))
        elif op == "rename" and reals:
            kname = g.pick(reals)
            cands = [n for n, sh in REAL_POOL.items() if sh == inp[kname][1] and n not in inp]
            if cands:
                node = ("sub", node, ((kname, ("pyname", g.pick(cands))),))
        elif op == "align":
            names = sorted(inp)
            if len(names) >= 2:
                node = ("align", tuple(g.perm(names)[: g.rint((1, len(names)))]), node)
        elif op == "cat" and ints:
            a = g.pick(ints)
            n = inp[a][0]
            if n >= 2:
                kcut = g.rint((1, n - 1))
                other = gauss_leaf(g, avail, real_names=[r for r in reals][:2] or None)
                if a not in typeof(other)[0]:
                    continue
                p1 = ("sub", node, ((a, ("slice", "p", 0, kcut, 1, n)),))
                p2 = ("sub", other, ((a, ("slice", "p", kcut, n, 1, n)),))
                node = ("cat", a, (p1, p2), "p")
        try:
            typeof(node)
        except Exception:
            return gauss_leaf(g, avail)
    return node


def gen_param(src):
    g = G(src, Opts(gauss=True))
    reals = g.perm(sorted(REAL_POOL))[: g.rint((1, 2))]
    D = sum(numel(REAL_POOL[n]) for n in reals)
    if D > 4:
        reals = ["x", "z"]
        D = 2
    ints = g.subset(set(g.sizes), 0, 1)
    nb = g.numel([g.sizes[n] for n in ints])
    loc = g.pick(LOCS)
    scale = g.pick(SCALES)
    if loc == "white_vec":
        scale = "prec_sqrt"
    order = g.perm(list(ints) + list(reals))
    # keep relative orders canonical for batch/event layout
    A = []
    for _ in range(nb):
        off = g.expand(SVALS, D * D)
        dg = g.expand(DIAG, D)
        A.append([[dg[i] if i == j else (off[i * D + j] if j < i else 0.0) for j in range(D)] for i in range(D)])
    locv = [list(g.expand(WVALS, D)) for _ in range(nb)]
    return {"kind": "param", "ints": [(n, g.sizes[n]) for n in ints], "reals": [(n, REAL_POOL[n]) for n in reals],
            "order": order, "loc": loc, "scale": scale, "tril": A, "locv": locv}


def cases(tier):
    opts = Opts(gauss=True, max_depth=2)

    @st.composite
    def _structured(draw):
        return {"kind": "chain", "ast": gen_chain(HypSource(draw), opts)}

    seeded = st.integers(0, 2**40).map(robust_gen(lambda s: {"kind": "chain", "ast": gen_chain(SeedSource(s), opts)}))
    params = st.integers(0, 2**40).map(robust_gen(lambda s: gen_param(SeedSource(s))))
    chain = st.one_of(_structured(), seeded, seeded, seeded)
    return st.one_of(st.tuples(chain, st.sampled_from(MODES)).map(lambda t: dict(t[0], mode=t[1])), params) if True else chain


class C12(Prop):
    id = "C12"
    rule = (
        "Gaussian leaves with 1-3 real inputs from {x:(), z:(), y:(2,), u:(3,), v:(2,2)} (total dim <=5), 0-2 batch inputs in every "
        "interleaving, rank deficient / square (non-triangular) / over-complete up to 2*dim+1, then chains of 1-3 operations from {add, "
        "subtract, negate, substitute real values (numbers, batched tensors, affine expressions incl. matmul and self-reference) for some/all "
        "real inputs, integer index/tensor index/slice/rename, rename a real input, align, Cat along a batch input}, evaluated eagerly, lazily "
        "+ reinterpret, or under compress_gaussians; plus all (mean|info_vec|white_vec) x (precision|covariance|scale_tril|prec_sqrt) "
        "constructor parametrisations; oracle = -1/2||xS-w||^2 evaluated point-wise by the reference evaluator at every batch index x 3 real "
        "points; non-trivial = rank != dim, or real inputs interleaved with batch inputs, or chain depth >= 2"
    )
    assumptions = (
        "reference: -1/2 ||x S - w||^2 (and -1/2 (x-mu)' P (x-mu) for parametrised constructors), evaluated with numpy",
        "well-conditioned square-root factors (diagonally dominant leading block)",
    )
    cases = {"quick": 4000, "thorough": 80000}

    def strategy(self, tier):
        return cases(tier)

    def describe(self, case):
        if case["kind"] == "param":
            return f"Gaussian({case['loc']}=..., {case['scale']}=..., inputs={case['order']})"
        return f"[{case['mode']}] {show(case['ast'])}"

    def signature(self, case):
        if case["kind"] == "param":
            return f"param:{case['loc']}:{case['scale']}"
        return ast_signature(case["ast"]) + "|" + case["mode"]

    def shrink_candidates(self, case):
        if case["kind"] != "chain":
            return
        if case["mode"] != "eager":
            yield dict(case, mode="eager")
        for c in ast_shrinks(case["ast"]):
            yield dict(case, ast=c)

    def check(self, case, stt):
        if case["kind"] == "param":
            return self.check_param(case, stt)
        import funsor.interpretations as I
        from funsor.interpreter import reinterpret
        from vf.build import build

        node, mode = case["ast"], case["mode"]
        stt.count("mode:" + mode)
        for n in walk(node):
            if n[0] != "gauss":
                stt.count("op:" + n[0] + (":" + str(n[1]) if n[0] in ("bin", "un") else ""))
        try:
            if mode == "eager":
                r = build(node)
            elif mode == "lazy":
                with I.lazy:
                    t = build(node)
                r = reinterpret(t)
            else:
                with I.compress_gaussians:
                    r = build(node)
        except Exception as e:
            raise Decline("raised:" + innermost_funsor_frame(e))
        evaluate_against_oracle(node, r, stt, "gaussian", nreal=3)
        self.integer_typed_point(case, r, stt)
        stt.count("completed")
        gs = [n for n in walk(node) if n[0] == "gauss"]
        depth = sum(1 for n in walk(node) if n[0] not in ("gauss", "ten", "num", "var", "slice"))
        nt = depth >= 2
        for g_ in gs:
            D = sum(numel(sh) for n, sh in g_[2])
            if g_[4] != D:
                nt = True
            order = list(g_[3])
            kinds = ["i" if n in dict(g_[1]) else "r" for n in order]
            if "".join(kinds).find("ri") >= 0:
                nt = True
                stt.count("real-before-int")
            stt.count("rank:" + ("deficient" if g_[4] < D else "full" if g_[4] == D else "over"))
        if nt:
            stt.mark_nontrivial(case_hash(case))

    def integer_typed_point(self, case, r, stt):
        """A point whose integral coordinates are passed as integer-typed arrays (as a caller writing `g(x=np.array([1, -2]),
        y=0.5)` does) gives the value of the same point passed as floats."""
        import numpy as np
        from funsor.tensor import Tensor
        from funsor.terms import Number

        reals = [(k, d) for k, d in r.inputs.items() if d.dtype == "real"]
        if not reals or len(reals) > 6:
            return
        salt = sum(ord(c) for c in self.describe(case)) % 4
        for variant in range(2):
            kw_i, kw_f = {}, {}
            for j, (k, d) in enumerate(reals):
                size = numel(d.shape)
                ints_ = ((np.arange(size) + j + salt + variant) % 4 - 1).reshape(d.shape)
                as_int = j == 0 if variant == 0 else (j + salt) % 2 == 0
                if as_int:
                    kw_i[k] = np.asarray(ints_, dtype=np.int64)
                    kw_f[k] = np.asarray(ints_, dtype=float)
                else:
                    kw_i[k] = kw_f[k] = np.asarray(np.asarray(ints_, dtype=float) + 0.375)  # (0-d stays an array)
            for k, d in r.inputs.items():
                if d.dtype != "real":
                    kw_i[k] = kw_f[k] = (salt + variant) % d.size
            try:
                vf_ = r(**kw_f)
            except Exception as e:
                stt.count("integer-typed-point:float-point-raised:" + innermost_funsor_frame(e))
                return
            try:
                vi_ = r(**kw_i)
            except Exception:
                stt.count("integer-typed-point:raised")
                continue
            if not isinstance(vf_, (Tensor, Number)) or not isinstance(vi_, (Tensor, Number)) or vf_.inputs or vi_.inputs:
                stt.count("integer-typed-point:lazy")
                continue
            a_, b_ = np.asarray(vi_.data, dtype=float), np.asarray(vf_.data, dtype=float)
            if a_.shape != b_.shape or not np.allclose(a_, b_, rtol=1e-9, atol=1e-9, equal_nan=True):
                raise Violation("integer-typed-point-wrong-value", f"value {a_.tolist()} at a point with integer-typed coordinates { {k: np.asarray(v).tolist() for k, v in kw_i.items()} } but {b_.tolist()} at the same point as floats: {self.describe(case)}")
            stt.count("integer-typed-point:compared")

    def check_param(self, case, stt):
        from collections import OrderedDict

        from funsor import Bint, Reals
        from funsor.gaussian import Gaussian
        from vf.build import eval_at

        ints = [tuple(x) for x in case["ints"]]
        reals = [(n, tuple(sh)) for n, sh in case["reals"]]
        D = sum(numel(sh) for n, sh in reals)
        bshape = tuple(s for n, s in ints)
        A = np.asarray(case["tril"], dtype=float).reshape(bshape + (D, D))  # lower triangular, positive diagonal
        locv = np.asarray(case["locv"], dtype=float).reshape(bshape + (D,))
        loc, scale = case["loc"], case["scale"]
        stt.count(f"param:{loc}:{scale}")
        AT = np.swapaxes(A, -1, -2)
        if scale == "precision":
            P = A @ AT
            kw = {"precision": P}
        elif scale == "covariance":
            C = A @ AT
            P = np.linalg.inv(C)
            kw = {"covariance": C}
        elif scale == "scale_tril":
            P = np.linalg.inv(A @ AT)
            kw = {"scale_tril": A}
        else:
            # any square root of the precision is a legal prec_sqrt, not only the lower Cholesky factor: columns
            # reversed (a dense / upper-triangular-looking root) and a negated column in two thirds of the cases
            variant = int(abs(float(locv.sum())) * 4) % 3
            if variant >= 1:
                A = A[..., ::-1].copy()
            if variant == 2:
                A[..., 0] = -A[..., 0]
            AT = np.swapaxes(A, -1, -2)
            stt.count(f"prec_sqrt-variant:{variant}")
            P = A @ AT
            kw = {"prec_sqrt": A}
        if loc == "mean":
            mu = locv
            kw["mean"] = locv
        elif loc == "info_vec":
            mu = np.linalg.solve(P, locv[..., None])[..., 0]
            kw["info_vec"] = locv
        else:
            # white_vec w with prec_sqrt S: -1/2||xS - w||^2 ; mean = w S^{-1}
            mu = np.linalg.solve(AT, locv[..., None])[..., 0]
            kw["white_vec"] = locv
        doms = {n: Bint[s] for n, s in ints}
        doms.update({n: Reals[sh] for n, sh in reals})
        order = [n for n in case["order"]]
        # batch layout follows the integer inputs' order in `order`; event layout the reals' order
        iorder = [n for n in order if n in dict(ints)]
        rorder = [n for n in order if n in dict(reals)]
        if iorder != [n for n, s in ints] or rorder != [n for n, sh in reals]:
            ints = [(n, dict(ints)[n]) for n in iorder]
            reals = [(n, dict(reals)[n]) for n in rorder]
        try:
            g = Gaussian(inputs=OrderedDict((n, doms[n]) for n in order), **kw)
        except Exception as e:
            raise Decline("ctor-raised:" + innermost_funsor_frame(e))
        pts = [0.5, -0.75, 1.25]
        for j, base in enumerate(pts):
            for idx in itertools.product(*[range(s) for n, s in ints]):
                pt = dict(zip([n for n, s in ints], idx))
                xs = []
                for k, (n, sh) in enumerate(reals):
                    v = (base + 0.25 * k + 0.125 * np.arange(numel(sh))).reshape(sh)
                    pt[n] = v
                    xs.append(v.reshape(-1))
                x = np.concatenate(xs)
                d = x - mu[idx]
                want = -0.5 * d @ P[idx] @ d
                got = eval_at(g, pt)
                if not close(got, want):
                    raise Violation("parametrisation-wrong-value", f"Gaussian({loc}, {scale}) at {idx}: funsor {float(got)} formula {want}")
        stt.count("completed")
        stt.mark_nontrivial(case_hash(case))


PROP = C12()
