"""C01 — eager evaluation returns the mathematical value of the expression."""
import numpy as np
from hypothesis import strategies as st

from vf.core import Decline, Prop, Violation, case_hash, innermost_funsor_frame
from vf.gen import Opts, exprs
from vf.lang import NotNormalizable, OutOfDomain, Oracle, Undecided, close, int_points, npoints, real_points, show, size_of, typeof, walk

MAX_POINTS = 2048


def _kids(n):
    k = n[0]
    if k in ("un", "red", "getitem"):
        return [n[2]]
    if k in ("unp", "lam"):
        return [n[3]]
    if k in ("stack", "cat", "einsum"):
        return list(n[2])
    if k == "sub":
        return [n[1]]
    return []


def core_violation(node):
    """None if the AST is inside the documented core fragment (completion is
    then required), else a short reason."""
    for n in walk(node):
        k = n[0]
        if k == "var":
            return "variable leaf"
        # numbers only as the other operand of a binary op (or as a substituted value / index)
        if k in ("un", "unp", "red", "stack", "cat", "lam", "einsum", "sub", "getitem"):
            kids = _kids(n)
            if any(c[0] == "num" for c in kids):
                return "number operand"
        if k == "num":
            continue
        if k == "ten":
            if len(n) > 5 and n[5]:
                return "bool tensor"
            continue
        if k == "un":
            if n[1] == "invert":
                return "invert"
            continue
        if k == "bin":
            (li, lo), (ri, ro) = typeof(n[2]), typeof(n[3])
            if lo[0] != ro[0]:
                return "mixed dtypes"
            if lo[0] != "real":
                return "integer arithmetic"
            if n[1] in ("eq", "ne", "lt", "le", "gt", "ge"):
                return "comparison (boolean data)"
            if n[2][0] == "num" and n[3][0] == "num":
                return "number-number"
            continue
        if k == "red":
            inp = typeof(n[2])[0]
            if any(name not in inp for name, s in n[3]):
                return "reduce over absent variable"
            if typeof(n[2])[1][0] != "real":
                return "integer reduce"
            continue
        if k == "sub":
            inp = typeof(n[1])[0]
            targets = []
            for name, v in n[2]:
                if name not in inp:
                    return "extra key"
                if v[0] in ("pynum", "num"):
                    continue
                if v[0] == "ten":
                    continue
                if v[0] in ("pyname", "var"):
                    t = v[1]
                    if t in inp or t in targets:
                        return "colliding rename"
                    targets.append(t)
                    continue
                if v[0] == "slice":
                    t = v[1]
                    if t in inp and t != name or t in targets:
                        return "colliding slice"
                    targets.append(t)
                    continue
                return "expression value"
            continue
        if k in ("getitem", "lam", "stack", "cat", "einsum"):
            continue
        if k == "unp":
            continue
        if k == "slice":
            continue
        return k
    # a bare Slice / Number is not a tensor expression; slices only as substituted values
    if node[0] == "slice":
        return "bare slice"
    for n in walk(node):
        kids = _kids(n) + ([n[2], n[3]] if n[0] == "bin" else []) + ([n[3]] if n[0] == "getitem" else [])
        if any(c[0] == "slice" for c in kids):
            return "slice operand"
    # numbers only as the other operand of a binary op / as values
    if node[0] == "num":
        return "bare number"
    return None


def ast_signature(node):
    sig = set()
    for n in walk(node):
        if n[0] in ("un", "bin", "red", "unp"):
            sig.add(n[0] + ":" + str(n[1]))
        elif n[0] not in ("num", "ten"):
            sig.add(n[0])
    return ",".join(sorted(sig))


def nontrivial(node):
    kinds = {n[0] for n in walk(node) if n[0] not in ("num", "ten", "var", "slice")}
    return len(kinds) >= 2


def evaluate_against_oracle(node, f, stt, what, require_complete=False, nreal=3, nonneg_reals=False):
    """Compare funsor `f` with the oracle value of `node` on the whole input space.
    Returns (table_constant: bool).  Raises Violation / Decline."""
    from vf.build import eval_at, funsor_type

    inputs, out = typeof(node)
    fin, fout = funsor_type(f)
    extra = set(fin) - set(inputs)
    if extra:
        raise Violation(f"{what}:extra-inputs", f"result has inputs {sorted(extra)} not free in the expression: {show(node)}")
    for n in fin:
        if fin[n] != inputs[n]:
            raise Violation(f"{what}:input-domain", f"input {n} declared {fin[n]} expected {inputs[n]}: {show(node)}")
    if npoints(inputs) > MAX_POINTS:
        raise Decline("too-many-points")
    orc = Oracle()
    first = None
    constant = True
    from vf.lang import delta_hit_points

    for ip in int_points(inputs):
        for rp in real_points(inputs, nreal, nonneg=nonneg_reals) + delta_hit_points(node, inputs, ip):
            pt = dict(ip)
            pt.update(rp)
            try:
                want = orc.ev(node, pt)
            except OutOfDomain:
                raise Decline("oracle-nan(outside op domain)")
            except (Undecided, NotNormalizable) as u:
                raise Decline("oracle-undecided:" + str(u)[:50])
            if np.isnan(np.asarray(want, dtype=float)).any():
                raise Decline("oracle-nan(outside op domain)")
            try:
                got = eval_at(f, pt)
            except Decline:
                raise
            except Exception as e:
                raise Decline("exception-at-binding:" + innermost_funsor_frame(e))
            if not close(got, want):
                g_, w_ = np.asarray(got, dtype=float), np.asarray(want, dtype=float)
                if g_.shape == w_.shape and np.all((np.isclose(g_, w_, rtol=1e-6, atol=1e-9, equal_nan=True)) | ((w_ == -np.inf) & np.isfinite(g_) & (g_ < -700.0))):
                    # the reference evaluator works in floating point: exp(v) underflows to 0 for v < -745 and a later log gives
                    # -inf, while funsor cancels log(exp(.)) symbolically and keeps the finite (very negative) value
                    stt.count("oracle-underflow(point skipped)")
                    continue
                raise Violation(
                    f"{what}:wrong-value",
                    f"at {pt}: funsor gives {np.asarray(got).tolist()} oracle {np.asarray(want).tolist()} for {show(node)}",
                )
            if first is None:
                first = np.asarray(want, dtype=float)
            elif constant and not (first.shape == np.shape(want) and np.array_equal(first, np.asarray(want, dtype=float))):
                constant = False
    return constant


class C01(Prop):
    id = "C01"
    rule = (
        "typed recursive ASTs (depth<=3 quick, <=4 thorough) over <=5 bounded-integer names of sizes 1-4 and optional real "
        "variables; built eagerly through the public API; value compared with the point-wise oracle on EVERY assignment of "
        "the integer inputs x 3 grid points of real inputs; distinct = hash of AST; non-trivial = >=2 different non-leaf "
        "constructor kinds, eager completed, oracle table not constant"
    )
    assumptions = (
        "reference evaluator vf/lang.py (Python loops + numpy on scalars/small arrays) is the root of trust",
        "tolerance 1e-8 abs + 1e-6 rel in float64; cases whose oracle is NaN (outside an op's domain) are discarded and counted",
        "leaf data from the grid {0.25..2.0} (plus 0, negatives, -inf in the edge profile)",
    )
    cases = {"quick": 6400, "thorough": 150000}

    def strategy(self, tier):
        d = 3 if tier == "quick" else 4
        core = exprs(Opts(core=True, collide=False, red_absent=False, slices=True, max_depth=d, int_arith=False), ("real", ()))
        full = exprs(Opts(max_depth=d, counts=True), None)
        reals = exprs(Opts(reals=True, max_depth=d, counts=True), None)
        edge = exprs(Opts(edge=True, max_depth=d, ops_unary=("neg", "abs", "exp", "tanh", "sigmoid"), ops_binary=("add", "mul", "max", "min", "logaddexp", "sub")), ("real", ()))
        # point masses and Constant wrappers (reference semantics in vf/lang.py; Delta points are offered as evaluation points)
        pm = exprs(Opts(reals=True, max_depth=2, deltas=True, consts=True, max_names=3), ("real", ()))
        return st.one_of(core, full, full, reals, edge, pm)

    def describe(self, case):
        return show(case)

    def signature(self, case):
        return ast_signature(case)

    def shrink_candidates(self, case):
        from vf.lang import ast_shrinks

        return ast_shrinks(case)

    def extra(self, tier, shard, nshards, stt, seed):
        """Small-scope enumeration: every chain of 2 constructor templates (all of them), and a seeded
        1/40 (quick) or 1/4 (thorough) sample of the chains of 3."""
        from vf.core import Stats
        from vf.gen import N_CHAIN_STEPS, chain_ast

        def run(idx, length):
            node = chain_ast(idx, length)
            stt.evaluations += 1
            try:
                self.check(node, stt)
            except Decline as d:
                stt.decline(d.bucket)
            except Violation as v:
                sig = v.bucket + "|chain|" + ast_signature(node)
                if not any(x["bucket"] == sig for x in stt.violations) and len(stt.violations) < 6:
                    stt.violations.append(dict(bucket=sig, message=v.message, case=node))

        n2 = N_CHAIN_STEPS ** 2
        for idx in range(shard, n2, nshards):
            run(idx, 2)
        n3 = N_CHAIN_STEPS ** 3
        stride = 40 if tier == "quick" else 4
        for idx in range(shard * stride + (seed % stride), n3, nshards * stride):
            run(idx, 3)
        stt.notes["max_chain2_enumerated"] = n2

    def check(self, case, stt):
        from vf.build import build

        node = case
        why_not_core = core_violation(node)
        is_core = why_not_core is None
        stt.count("core" if is_core else "non-core")
        for n in walk(node):
            stt.count("node:" + n[0] + (":" + str(n[1]) if n[0] in ("un", "bin", "red", "unp") else ""))
        try:
            f = build(node)
        except (MemoryError, RecursionError):
            raise
        except Exception as e:
            if is_core:
                raise Violation("core-fragment-raised:" + innermost_funsor_frame(e), f"{type(e).__name__}: {str(e)[:200]} for {show(node)}")
            raise Decline("build-raised:" + innermost_funsor_frame(e))
        try:
            constant = evaluate_against_oracle(node, f, stt, "eager")
        except Decline as d:
            if is_core and not d.bucket.startswith(("oracle-nan", "too-many")):
                raise Violation("core-fragment-not-completed:" + d.bucket, f"{show(node)} -> {type(f).__name__}")
            raise
        from funsor.tensor import Tensor
        from funsor.terms import Number

        if is_core and not isinstance(f, (Tensor, Number)):
            raise Violation("core-fragment-lazy", f"{show(node)} -> {type(f).__name__}")
        stt.count("completed")
        if nontrivial(node) and not constant:
            stt.mark_nontrivial(case_hash(node))


PROP = C01()
