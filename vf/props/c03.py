"""C03 — exact interpretations are interchangeable: deferred equals immediate."""
import os

import numpy as np
from hypothesis import strategies as st

from vf.core import Decline, Prop, Violation, case_hash, innermost_funsor_frame
from vf.gen import Opts, exprs
from vf.lang import ast_shrinks, show, typeof, walk
from vf.props.c01 import ast_signature, evaluate_against_oracle

LAYERS = ["lazy", "reflect", "normalize", "memoize", "sequential", "moment_matching"]


import itertools

NESTS = [n for k in (1, 2, 3) for n in itertools.product(LAYERS, repeat=k)]


def perturb(node, k):
    """The same expression with every real leaf tensor shifted by k/4 (new arrays, new values)."""
    if not isinstance(node, tuple):
        return node
    if node and node[0] == "ten" and node[3] == "real":
        return node[:4] + (tuple(v + 0.25 * k for v in node[4]),) + node[5:]
    if node and isinstance(node[0], str) and node[0] in ("num", "var", "slice", "gauss"):
        return node
    return tuple(perturb(c, k) for c in node)


def same_funsor(a, b):
    """Structural value equality of two evaluated funsors."""
    from funsor.tensor import Tensor
    from funsor.terms import Number

    if a is b:
        return True
    if type(a).__name__.split("[")[0] != type(b).__name__.split("[")[0]:
        return False
    if isinstance(a, Number):
        return a.data == b.data and a.dtype == b.dtype
    if isinstance(a, Tensor):
        return (
            tuple(a.inputs.items()) == tuple(b.inputs.items())
            and a.output == b.output
            and a.data.shape == b.data.shape
            and np.allclose(np.asarray(a.data, dtype=float), np.asarray(b.data, dtype=float), equal_nan=True)
        )
    return a is b


class C03(Prop):
    id = "C03"
    rule = (
        "generated ASTs x a nest of 1-3 interpretation contexts drawn from {lazy, reflect, normalize, memoize, sequential, "
        "moment_matching} in every order x {reinterpret, recursion_reinterpret, stack_reinterpret}; shards run with "
        "FUNSOR_USE_TCO in {0,1} x FUNSOR_TYPECHECK in {0,1}; the deferred result must have the eager output domain, inputs among the "
        "expression's and the oracle value at EVERY point; memoized builds return the identical object for a repeated build and "
        "every cache hit equals a fresh interpretation of the same arguments; non-trivial = the nested build really was lazy "
        "(structurally different from the eager result) and the AST contains a binder or substitution"
    )
    assumptions = (
        "reference evaluator vf/lang.py; eager result additionally compared with the oracle directly",
        "no Gaussian mixtures in these programs (moment_matching is exact on them)",
    )
    cases = {"quick": 2400, "thorough": 50000}

    def strategy(self, tier):
        d = 3 if tier == "quick" else 4
        a = exprs(Opts(max_depth=d), None)
        b = exprs(Opts(max_depth=d, reals=True), None)
        nest = st.sampled_from(NESTS)
        pm = exprs(Opts(reals=True, max_depth=2, deltas=True, consts=True, max_names=3), ("real", ()))
        al = exprs(Opts(max_depth=d, align_weight=8), ("real", ()))  # Align wrappers at operand positions
        return st.tuples(st.one_of(a, a, b, pm, al), nest).map(lambda t: {"ast": t[0], "nest": tuple(t[1])})

    def describe(self, case):
        return f"[{'>'.join(case['nest'])}] {show(case['ast'])}"

    def signature(self, case):
        return ast_signature(case["ast"]) + "|" + ">".join(case["nest"])

    def shrink_candidates(self, case):
        nest = tuple(case["nest"])
        for i in range(len(nest)):
            if len(nest) > 1:
                yield dict(case, nest=nest[:i] + nest[i + 1 :])
        for c in ast_shrinks(case["ast"]):
            yield dict(case, ast=c)

    def extra(self, tier, shard, nshards, stt, seed):
        """Small-scope enumeration: every chain of 2 constructor templates under each single deferring layer."""
        from vf.gen import N_CHAIN_STEPS, chain_ast

        n2 = N_CHAIN_STEPS ** 2
        layers = [("normalize",), ("lazy",), ("reflect",), ("sequential",)] if tier == "quick" else [(l,) for l in LAYERS]
        k = 0
        for idx in range(n2):
            for nest in layers:
                k += 1
                if k % nshards != shard:
                    continue
                case = {"ast": chain_ast(idx, 2), "nest": nest}
                stt.evaluations += 1
                try:
                    self.check(case, stt)
                except Decline as d:
                    stt.decline(d.bucket)
                except Violation as v:
                    sig = v.bucket + "|chain|" + self.signature(case)
                    if not any(x["bucket"] == sig for x in stt.violations) and len(stt.violations) < 6:
                        stt.violations.append(dict(bucket=sig, message=v.message, case=case))
        stt.notes["max_chain2_enumerated"] = n2
        if shard == 0:
            self.shared_cache_history(stt, seed, 150 if tier == "quick" else 1500)

    def shared_cache_history(self, stt, seed, steps):
        """One cache dict shared by consecutive memoize blocks while operands are created by the caller, used once and
        dropped (so that object identities are recycled): a later block must never receive a result computed for other
        operands, and two builds inside one block give the identical object."""
        import gc
        from collections import OrderedDict

        import funsor.interpretations as I
        from funsor import Bint, Tensor, ops

        builders = [
            ("exp", lambda x: x.exp()),
            ("reduce-add", lambda x: x.reduce(ops.add, "i")),
            ("square-logsumexp", lambda x: (x * x).reduce(ops.logaddexp, "i")),
            ("neg-plus-self", lambda x: -x + x * 2.0),
        ]
        for bname, build_ in builders:
            cache = {}
            for n in range(steps):
                stt.evaluations += 1
                x = Tensor(np.arange(3.0) * 0.5 + (n + seed) % 97, OrderedDict(i=Bint[3]))
                expected = build_(x)
                with I.memoize(cache):
                    first = build_(x)
                    second = build_(x)
                if first is not second:
                    stt.violations.append(dict(bucket="memoize-not-identical|history", message=f"{bname}: two builds inside one memoize block differ at step {n}", case={"history": bname, "step": n}))
                    return
                if not isinstance(first, Tensor) or first.inputs != expected.inputs or not np.allclose(first.data, expected.data):
                    stt.violations.append(dict(bucket="memoize-stale-result|history", message=f"{bname}: step {n} of a shared-cache history returned {getattr(first, 'data', first)} where eager evaluation gives {expected.data}", case={"history": bname, "step": n}))
                    return
                del x, first, second, expected
                gc.collect()
            stt.count("shared-cache-history:" + bname)
            stt.mark_nontrivial("history:" + bname)

    def check(self, case, stt):
        import contextlib

        import funsor.interpretations as I
        from funsor import interpreter
        from funsor.tensor import Tensor
        from funsor.terms import Number
        from vf.build import build, funsor_type

        if "history" in case:
            n0 = len(stt.violations)
            self.shared_cache_history(stt, int(os.environ.get("VERIF_SEED", "1")), 150)
            if len(stt.violations) > n0:
                v = stt.violations.pop()
                raise Violation(v["bucket"], v["message"])
            return
        node, nest = case["ast"], tuple(case["nest"])
        stt.count(f"env:TCO={os.environ.get('FUNSOR_USE_TCO', '0')},TYPECHECK={os.environ.get('FUNSOR_TYPECHECK', '0')}")
        stt.count("nest:" + ">".join(nest))
        inputs, out = typeof(node)

        # immediate (eager) build
        eager_ok = True
        try:
            fe = build(node)
        except Exception as e:
            eager_ok = False
            fe = None
        hits = []

        class RecordingMemoize(I.Memoize):
            def interpret(self, cls, *args):
                key = self.make_hash_key(cls, *args)
                before = self.cache.get(key)
                r = super().interpret(cls, *args)
                if before is not None:
                    hits.append((cls, args, r))
                return r

        def enter(stack, name):
            if name == "memoize":
                if len(hits) % 2 == 0 and False:
                    return stack.enter_context(I.memoize())
                return stack.enter_context(RecordingMemoize(interpreter.get_interpretation()))
            return stack.enter_context(getattr(I, name))

        try:
            with contextlib.ExitStack() as stack:
                for name in nest:
                    enter(stack, name)
                fd = build(node)
                if nest[-1] == "memoize":
                    fd2 = build(node)
                    # leaves are fresh arrays on each build, so only array-free ASTs must be identical
                    if not any(n[0] == "ten" for n in walk(node)) and fd2 is not fd:
                        raise Violation("memoize-not-identical", f"two builds inside one memoize context differ: {self.describe(case)}")
        except Violation:
            raise
        except Exception as e:
            raise Decline("nested-build-raised:" + innermost_funsor_frame(e))

        # a cache dict shared by several memoize blocks, with the operands of earlier blocks dropped and
        # collected in between: a later block must never receive a result computed for different arguments
        if "memoize" in nest and any(n[0] == "ten" and n[3] == "real" for n in walk(node)):
            import gc

            shared = {}
            for round_ in range(3):
                variant = perturb(node, round_)
                from vf.build import Leaves

                lv = Leaves()
                # operands are created by the caller outside the memoize block (and dropped after the round)
                lv.prebuilt = {}
                for n_ in walk(variant):
                    if n_[0] == "ten" and id(n_) not in lv.prebuilt:
                        lv.prebuilt[id(n_)] = build(n_)
                try:
                    with contextlib.ExitStack() as stack:
                        for name in nest:
                            if name == "memoize":
                                stack.enter_context(I.memoize(shared))
                            else:
                                stack.enter_context(getattr(I, name))
                        fv = build(variant, lv)
                    if not isinstance(fv, (Tensor, Number)):
                        fv = interpreter.reinterpret(fv)
                except Exception as e:
                    stt.decline("shared-cache-build-raised:" + innermost_funsor_frame(e))
                    break
                try:
                    evaluate_against_oracle(variant, fv, stt, "memoize-shared-cache")
                except Decline as d:
                    stt.decline("shared-cache:" + d.bucket)
                    break
                fv = lv = None
                gc.collect()
            stt.count("shared-cache-rounds")
            shared.clear()

        was_lazy = not isinstance(fd, (Tensor, Number))
        results = [("direct", fd)]
        if was_lazy:
            for rname, fn in (("reinterpret", interpreter.reinterpret), ("recursion", interpreter.recursion_reinterpret), ("stack", interpreter.stack_reinterpret)):
                try:
                    results.append((rname, fn(fd)))
                except Exception as e:
                    stt.decline(f"{rname}-raised:" + innermost_funsor_frame(e))
            results = results[1:]
        checked = 0
        for rname, r in results:
            fin, fout = funsor_type(r)
            if eager_ok and funsor_type(fe)[1] != fout:
                raise Violation("output-domain-vs-eager", f"{rname}: output {fout}, eager {funsor_type(fe)[1]}: {self.describe(case)}")
            try:
                evaluate_against_oracle(node, r, stt, "deferred:" + rname)
                checked += 1
            except Decline as d:
                stt.decline(rname + ":" + d.bucket)
        if len(results) >= 2:
            # both reinterpreters must agree structurally when both complete
            evs = [r for n, r in results if isinstance(r, (Tensor, Number))]
            for r in evs[1:]:
                if not same_funsor(evs[0], r):
                    raise Violation("reinterpreters-disagree", self.describe(case))
        if eager_ok:
            try:
                evaluate_against_oracle(node, fe, stt, "eager")
            except Decline:
                pass
        if not checked:
            raise Decline("no-deferred-result-completed")
        stt.count("completed")
        has_binder = any(n[0] in ("red", "sub", "lam", "cat", "stack", "getitem") for n in walk(node))
        if was_lazy and has_binder:
            stt.mark_nontrivial(case_hash([node, nest]))
        # memo hits: fresh interpretation under the same nest must be value-equal
        if hits:
            stt.count("memo-hits", len(hits))
            try:
                with contextlib.ExitStack() as stack:
                    for name in nest:
                        if name != "memoize":
                            stack.enter_context(getattr(I, name))
                    for cls, args, r in hits[:40]:
                        fresh = interpreter.get_interpretation().interpret(cls, *args)
                        if not same_funsor(fresh, r) and fresh is not r:
                            if isinstance(fresh, (Tensor, Number)) or isinstance(r, (Tensor, Number)):
                                raise Violation("memoize-stale-result", f"cache hit for {cls.__name__} returned {type(r).__name__}, fresh interpretation gives {type(fresh).__name__}: {self.describe(case)}")
            except Violation:
                raise
            except Exception:
                pass


PROP = C03()
