"""C04 — substitution is simultaneous, capture-avoiding function application."""
from hypothesis import strategies as st

from vf.core import Decline, Prop, Violation, case_hash, innermost_funsor_frame
from vf.gen import Opts, sub_cases
from vf.lang import ast_shrinks, show, show_value, typeof, walk
from vf.props.c01 import ast_signature, evaluate_against_oracle

F_MODES = ["eager", "lazy", "reflect", "normalize"]
S_MODES = ["eager", "lazy", "reflect", "normalize"]


def interactions(f, subs):
    """Which interaction classes the map exhibits (the NT rule)."""
    inp = typeof(f)[0]
    keys = [k for k, v in subs if k in inp]
    out = set()
    targets = []
    for k, v in subs:
        if k not in inp:
            out.add("extra-key")
            continue
        if v[0] in ("pyname", "var", "slice"):
            t = v[1]
            if t in inp and t != k:
                out.add("collides-with-input")
            if t in targets:
                out.add("shared-target")
            targets.append(t)
        elif v[0] not in ("pynum", "num"):
            vin = typeof(v)[0]
            if any(n in keys for n in vin):
                out.add("value-mentions-key")
            if any(n in inp for n in vin):
                out.add("value-mentions-input")
    return out


def value_node(v, dom):
    return v


class C04(Prop):
    id = "C04"
    rule = (
        "case = (f, subs[, subs2]): f from the generated term language built under eager/lazy/reflect/normalize; substitution "
        "maps with numbers, index tensors over arbitrary (incl. f's own and key) names, variables (fresh, colliding, swapped, "
        "diagonal), slices and integer/real expressions; applied under eager/lazy/reflect; compared with the oracle's "
        "simultaneous evaluation on the whole integer input space; chained f(a)(b) and extra keys as well; non-trivial = the map "
        "contains an interaction (collision with an input, shared target, value mentioning a key or an input of f)"
    )
    assumptions = (
        "reference evaluator vf/lang.py evaluates all substituted values in the caller's environment, then the body",
        "index tensors hold integer data (boolean arrays are numpy masks, not indices)",
        "Gaussian leaves occur inside the generated lazy terms (dense -1/2||xS-w||^2 oracle); Delta f is exercised by C14",
    )
    cases = {"quick": 6000, "thorough": 150000}

    def strategy(self, tier):
        d = 2 if tier == "quick" else 3
        a = sub_cases(Opts(max_depth=d))
        b = sub_cases(Opts(max_depth=d, reals=True))
        c = sub_cases(Opts(max_depth=d, reals=True, gauss=True))
        modes = st.tuples(st.sampled_from(F_MODES), st.sampled_from(S_MODES))
        pm = sub_cases(Opts(max_depth=2, reals=True, deltas=True, consts=True, max_names=3))
        # tables holding -inf / 0 / negative entries (a selected part may be finite while another part is not)
        edge = sub_cases(Opts(edge=True, reals=True, max_depth=d, ops_unary=("neg", "abs", "exp", "tanh", "sigmoid"), ops_binary=("add", "mul", "max", "min", "logaddexp", "sub")))
        return st.tuples(st.one_of(a, a, b, c, pm, edge), modes).map(lambda t: dict(t[0], fmode=t[1][0], smode=t[1][1]))

    def describe(self, case):
        s = f"[{case['fmode']}/{case['smode']}] ({show(case['f'])})(" + ", ".join(f"{k}={show_value(v)}" for k, v in case["subs"]) + ")"
        if case.get("subs2"):
            s += "(" + ", ".join(f"{k}={show_value(v)}" for k, v in case["subs2"]) + ")"
        return s

    def signature(self, case):
        sig = ast_signature(case["f"])
        kinds = sorted({v[0] for k, v in tuple(case["subs"]) + tuple(case.get("subs2") or ())})
        return sig + "|" + ",".join(kinds) + "|" + ",".join(sorted(interactions(case["f"], case["subs"])))

    def shrink_candidates(self, case):
        f, subs, subs2 = case["f"], tuple(case["subs"]), tuple(case.get("subs2") or ())
        out = []
        if subs2:
            out.append(dict(case, subs2=()))
        for m in ("eager",):
            if case["fmode"] != m:
                out.append(dict(case, fmode=m))
            if case["smode"] != m:
                out.append(dict(case, smode=m))
        for i in range(len(subs)):
            if len(subs) > 1:
                out.append(dict(case, subs=subs[:i] + subs[i + 1 :]))
        for i in range(len(subs2)):
            out.append(dict(case, subs2=subs2[:i] + subs2[i + 1 :]))
        for c in out:
            try:
                typeof(("sub", ("sub", c["f"], tuple(c["subs"])), tuple(c.get("subs2") or ())))
            except Exception:
                continue
            yield c
        root = ("sub", ("sub", f, subs), subs2)
        for cand in ast_shrinks(root):
            try:
                if cand[0] == "sub" and cand[1][0] == "sub":
                    yield dict(case, f=cand[1][1], subs=cand[1][2], subs2=cand[2])
            except Exception:
                continue

    def check(self, case, stt):
        import funsor.interpretations as I
        from funsor.interpreter import reinterpret
        from vf.build import build

        f, subs, subs2 = case["f"], tuple(case["subs"]), tuple(case.get("subs2") or ())
        fmode, smode = case["fmode"], case["smode"]
        node = ("sub", f, subs)
        full = ("sub", node, subs2) if subs2 else node
        typeof(full)
        inter = interactions(f, subs)
        for i in inter:
            stt.count("interaction:" + i)
        stt.count(f"mode:{fmode}/{smode}")
        for k, v in subs + subs2:
            stt.count("value:" + v[0])
        for n in walk(f):
            if n[0] not in ("num", "ten"):
                stt.count("f-node:" + n[0])

        def kwargs(ss, leaves):
            kw = {}
            for k, v in ss:
                if v[0] == "pynum":
                    kw[k] = v[1]
                elif v[0] == "pyname":
                    kw[k] = v[1]
                else:
                    kw[k] = build(v, leaves)
            return kw

        try:
            with getattr(I, fmode):
                fb = build(f)
            with getattr(I, smode):
                kw = kwargs(subs, None)
                keys_in = [k for k in kw if k in fb.inputs]
                r = fb(**kw)
                if smode == "reflect" and keys_in:
                    want = (set(fb.inputs) - set(keys_in))
                    for k in keys_in:
                        v = kw[k]
                        want |= set(getattr(v, "inputs", {})) if not isinstance(v, str) else {v}
                    if set(r.inputs) != want:
                        raise Violation("lazy-subs-inputs", f"Subs declares inputs {sorted(r.inputs)}, expected exactly {sorted(want)}: {self.describe(case)}")
                if subs2:
                    r = r(**kwargs(subs2, None))
            if smode != "eager" or fmode != "eager":
                r = reinterpret(r)
        except Violation:
            raise
        except Exception as e:
            raise Decline("raised:" + innermost_funsor_frame(e))
        constant = evaluate_against_oracle(full, r, stt, "subs")
        stt.count("completed")
        if inter - {"extra-key"}:
            stt.mark_nontrivial(case_hash([f, subs, subs2]))


PROP = C04()
