"""C14 — point masses and samples: Delta semantics and mass-preserving sampling."""
import itertools
import math

import numpy as np
from hypothesis import strategies as st

from vf.core import robust_gen, Decline, Prop, Violation, case_hash, innermost_funsor_frame
from vf.gen import G, REAL_POOL, WVALS, Opts, SeedSource, gauss_leaf
from vf.lang import Oracle, close, typeof

NEG = float("-inf")
VALS = [0.25, 0.5, 1.0, 1.5, 2.0, -0.5, NEG]


def numel(sh):
    return int(np.prod(sh)) if sh else 1


def gen_case(seed):
    g = G(SeedSource(seed), Opts(gauss=True, max_names=4))
    kind = g.pick(["delta", "delta", "tensor_sample", "tensor_sample", "tensor_sample", "gauss_sample", "gauss_sample", "gauss_reparam", "delta_terms", "delta_terms", "delta_terms", "mixture_sample", "mixture_sample", "delta_gauss", "delta_gauss"])
    names = sorted(g.sizes)
    if kind == "delta_gauss":
        # a Delta over several real inputs of a Gaussian (terms listed in any order, points batched or not), some real
        # inputs of the Gaussian left free: integrate / reduce / substitute must evaluate the Gaussian at the point
        leaf = gauss_leaf(g, set(g.sizes), nreal=g.pick([2, 3, 3, 4]), max_dim=6)
        reals = [n for n, sh in leaf[2]]
        bound = g.perm(g.subset(reals, 1 if len(reals) < 3 else 2, max(1, len(reals) - (1 if g.chance(0.8) else 0))))
        terms = []
        for n in bound:
            pn = g.subset(names, 0, 1)
            ins = tuple((a, g.sizes[a]) for a in pn)
            cnt = g.numel([s_ for _, s_ in ins]) * numel(REAL_POOL[n])
            terms.append((n, ("ten", ins, tuple(REAL_POOL[n]), "real", g.expand(WVALS, cnt), False)))
        return dict(kind=kind, gauss=leaf, terms=terms, how=g.pick(["integrate", "integrate", "reduce", "subs"]), mode=g.pick(["eager", "eager", "lazy"]), one_delta=g.chance(0.7))
    if kind == "delta_terms":
        # point masses inside the generated term language: Delta + f in both orders, several Deltas (one point a function of
        # another's variable), reductions and Integrate over all or some of the Delta's variables, substitution, Independent
        from vf.gen import gen_expr

        ast = gen_expr(SeedSource(seed + 1), Opts(max_depth=2, deltas=True, reals=True, max_names=3), ("real", ()))
        return dict(kind=kind, ast=ast, mode=g.pick(["eager", "eager", "lazy", "normalize"]))
    if kind == "delta":
        v = "v"
        real_point = g.chance(0.4)
        batch = g.subset(names, 0, 2)
        bins = [(n, g.sizes[n]) for n in batch]
        nb = g.numel([s for n, s in bins])
        if real_point:
            shape = g.pick([(), (2,)])
            point = g.expand(WVALS, nb * numel(shape))
            size = None
        else:
            shape = ()
            size = g.rint((2, 4))
            point = g.int_data(size, nb)
        ld_batch = g.subset(batch, 0, len(batch))
        ld = g.expand([0.0, 0.0, 0.5, -1.0, 0.25], g.numel([g.sizes[n] for n in ld_batch]))
        fnames = g.subset(names, 0, 2)
        fins = [(n, g.sizes[n]) for n in fnames]
        # f over (v, other names): for real v, f is affine/quadratic in v; for integer v a table
        # (integer-valued v: some cells of the table are the semiring zero -inf, also at the Delta's point)
        ftab = g.expand(VALS[:6] + ([float("-inf")] * 2 if not real_point and g.chance(0.5) else []), g.numel([s for n, s in fins]) * (size or 1))
        return dict(kind=kind, real_point=real_point, shape=shape, size=size, batch=bins, point=list(point), ld_batch=[(n, g.sizes[n]) for n in ld_batch],
                    ld=list(ld), fins=fins, ftab=list(ftab), lazy_point=g.chance(0.3), how=g.pick(["subs", "reduce", "integrate"]), unit=g.chance(0.5))
    if kind == "tensor_sample":
        ins = g.subset(names, 1, 3)
        tins = [(n, g.sizes[n]) for n in ins]
        data = list(g.expand(VALS, g.numel([s for n, s in tins])))
        sampled = g.subset(ins, 1, len(ins))
        nsi = g.rint((0, 2))
        sample_inputs = [("p", g.rint((1, 3))), ("q", g.rint((1, 2)))][:nsi]
        if g.chance(0.2) and len(ins) > len(sampled):
            # a sample input that coincides with a batch input is ignored by funsor
            pass
        # log-weights of very different scales along a batch (non-sampled) input: every batch row is its own distribution
        return dict(kind=kind, ins=tins, data=data, sampled=sampled, sample_inputs=sample_inputs, seed=g.rint((0, 10000)), row_offset=g.pick([0.0, 0.0, -900.0, -400.0, 800.0]))
    if kind == "mixture_sample":
        # Tensor + Gaussian mixture: integer and real variables sampled in one call or in two calls
        leaf = gauss_leaf(g, set(g.sizes), rank_mode=g.pick(["full", "over"]), max_dim=3)
        for _ in range(6):
            if leaf[1]:
                break
            leaf = gauss_leaf(g, set(g.sizes), rank_mode=g.pick(["full", "over"]), max_dim=3)
        ints = [n for n, s_ in leaf[1]]
        reals = [n for n, sh in leaf[2]]
        extra = [n for n in names if n not in ints][:1] if g.chance(0.4) else []
        wnames = g.subset(ints, 1, len(ints)) + extra if ints else extra
        if not wnames:
            wnames = names[:1]
        wins = tuple((n, g.sizes[n]) for n in wnames)
        w = ("ten", wins, (), "real", g.expand([0.25, 0.5, 1.0, -0.5, 1.5], g.numel([s_ for _, s_ in wins])), False)
        allints = sorted(set(ints) | set(wnames))
        si = g.subset(allints, 1, len(allints))
        sr = g.subset(reals, 0, len(reals))
        nsi = g.rint((0, 1))
        return dict(kind=kind, gauss=leaf, weights=w, sampled_ints=si, sampled_reals=sr, sample_inputs=[("p", g.rint((1, 3)))][:nsi], seed=g.rint((0, 10000)),
                    two_calls=g.chance(0.4) and bool(sr), reals_first=g.chance(0.5))
    leaf = gauss_leaf(g, set(g.sizes), rank_mode=g.pick(["full", "over"]), max_dim=4)
    reals = [n for n, sh in leaf[2]]
    if kind == "gauss_sample":
        sampled = g.subset(reals, 1, len(reals))
        nsi = g.rint((0, 2))
        sample_inputs = [("p", g.rint((1, 3))), ("q", g.rint((1, 2)))][:nsi]
        return dict(kind=kind, gauss=leaf, sampled=sampled, sample_inputs=sample_inputs, seed=g.rint((0, 10000)))
    return dict(kind=kind, gauss=leaf, sampled=reals if g.chance(0.7) else g.subset(reals, 1, len(reals)))


def cases():
    return st.integers(0, 2**40).map(robust_gen(gen_case))


def table_of(f, names_sizes, extra=None):
    """dict point-index -> value for a funsor over integer inputs names_sizes."""
    from vf.build import eval_at

    out = {}
    for idx in itertools.product(*[range(s) for n, s in names_sizes]):
        pt = dict(zip([n for n, s in names_sizes], idx))
        if extra:
            pt.update(extra)
        out[idx] = np.asarray(eval_at(f, pt), dtype=float)
    return out


class C14(Prop):
    id = "C14"
    rule = (
        "three families (seed-expanded): (1) Delta(v, point, log_density) with number / batched tensor / lazy points, integer or real, evaluated by "
        "substitution at every candidate value, by (Delta + f).reduce(logaddexp, v) and by Integrate(Delta, f, v) against f(v=point); (2) "
        "Tensor.sample over every subset of 1-3 inputs of sizes 1-4 with -inf entries, 0-2 particle inputs and a seeded numpy RNG: inputs/output, "
        "support, exact mass per batch element and particle, determinism; (3) Gaussian.sample over subsets of real inputs (mass vs the dense closed "
        "form, determinism) and reparametrised samples with a real noise input (affine in the noise; mean and covariance equal the dense ones). "
        "non-trivial = a batch input that is not sampled together with a particle input, or a -inf entry, or a lazy point"
    )
    assumptions = (
        "numpy global RNG seeded from the generated case (funsor's numpy backend draws from it)",
        "dense Gaussian closed forms as in C13; Delta terms are located through the public Delta.terms attribute",
    )
    cases = {"quick": 4000, "thorough": 80000}

    def strategy(self, tier):
        return cases()

    def describe(self, case):
        c = dict(case)
        if "gauss" in c:
            from vf.lang import show

            c["gauss"] = show(c["gauss"])
        if "weights" in c:
            from vf.lang import show

            c["weights"] = show(c["weights"])
        if "ast" in c:
            from vf.lang import show

            c["ast"] = show(c["ast"])
        return str(c)[:600]

    def signature(self, case):
        return case["kind"] + "|" + str(case.get("how", ""))

    def check(self, case, stt):
        stt.count("kind:" + case["kind"])
        return getattr(self, "check_" + case["kind"])(case, stt)

    # ------------------------------------------------------------ Delta terms in the term language
    def check_delta_terms(self, case, stt):
        import funsor.interpretations as I
        from funsor.interpreter import reinterpret
        from vf.build import build
        from vf.lang import show, walk
        from vf.props.c01 import evaluate_against_oracle

        node, mode = case["ast"], case["mode"]
        nd = sum(len(n[1]) for n in walk(node) if n[0] == "delta")
        if nd == 0:
            raise Decline("no Delta generated")
        try:
            if mode == "eager":
                r = build(node)
            else:
                with getattr(I, mode):
                    t = build(node)
                r = reinterpret(t)
        except Exception as e:
            raise Decline("raised:" + innermost_funsor_frame(e))
        evaluate_against_oracle(node, r, stt, "delta-terms")
        stt.count("completed")
        if nd >= 2 or any(n[0] in ("red", "integrate", "indep", "sub") for n in walk(node)):
            stt.mark_nontrivial(case_hash(case))

    # ------------------------------------------------------------ Delta
    def check_delta(self, case, stt):
        from collections import OrderedDict

        import funsor.interpretations as I
        from funsor import Bint, Reals, Tensor, Variable, ops
        from funsor.delta import Delta
        from funsor.integrate import Integrate
        from funsor.terms import Number
        from vf.build import eval_at

        bins = [tuple(b) for b in case["batch"]]
        bshape = tuple(s for n, s in bins)
        shape = tuple(case["shape"])
        real = case["real_point"]
        size = case["size"]
        P = np.asarray(case["point"], dtype=float if real else np.int64).reshape(bshape + shape)
        ldb = [tuple(b) for b in case["ld_batch"]]
        LD = np.asarray(case["ld"], dtype=float).reshape(tuple(s for n, s in ldb))
        if case["unit"] or case["how"] in ("reduce", "integrate"):
            # the statement speaks about unit-mass Deltas for reduction / integration
            LD = np.zeros_like(LD)
        dom = Reals[shape] if real else Bint[size]
        point = Tensor(P, OrderedDict((n, Bint[s]) for n, s in bins), "real" if real else size)
        if case["lazy_point"] and bins:
            with I.lazy:
                point = point + Number(0, "real" if real else 1) if real else point
        ld = Tensor(LD, OrderedDict((n, Bint[s]) for n, s in ldb))
        try:
            d = Delta("v", point, ld)
        except Exception as e:
            raise Decline("delta-ctor:" + innermost_funsor_frame(e))
        if set(d.inputs) != {"v"} | {n for n, s in bins} | {n for n, s in ldb}:
            raise Violation("delta-inputs", f"{list(d.inputs)}: {self.describe(case)}")
        fins = [tuple(x) for x in case["fins"] if x[0] not in ("v",)]
        how = case["how"]
        stt.count("delta:" + how + (":real" if real else ":int"))
        allb = sorted(set(bins) | set(ldb) | set(fins))

        def ldv(pt):
            return LD[tuple(pt[n] for n, s in ldb)]

        def pv(pt):
            return P[tuple(pt[n] for n, s in bins)]

        if how == "subs":
            cands = range(size) if not real else None
            for idx in itertools.product(*[range(s) for n, s in allb]):
                pt = dict(zip([n for n, s in allb], idx))
                qs = list(cands) if cands is not None else [pv(pt), pv(pt) + 0.5, np.zeros(shape)]
                for q in qs:
                    want = ldv(pt) if np.array_equal(np.asarray(q), np.asarray(pv(pt))) else NEG
                    try:
                        r = d(v=(int(q) if not real else np.asarray(q, dtype=float)))
                        got = eval_at(r, pt)
                    except Decline:
                        raise
                    except Exception as e:
                        raise Decline("delta-subs-raised:" + innermost_funsor_frame(e))
                    if not close(got, want):
                        raise Violation("delta-value", f"Delta(v=p,ld)(v={q}) at {pt}: funsor {np.asarray(got).tolist()} expected {want}: {self.describe(case)}")
        else:
            # f over (v, fins): table for integer v, quadratic-ish for real v
            fshape = tuple(s for n, s in fins)
            if real:
                coef = np.asarray(case["ftab"], dtype=float)[: max(1, int(np.prod(fshape)) if fshape else 1)].reshape(fshape or ())
                v = Variable("v", dom)
                vs = v if shape == () else v.sum()
                ft = Tensor(np.asarray(coef, dtype=float), OrderedDict((n, Bint[s]) for n, s in fins))
                f = ft * vs + vs * vs * 0.5

                def fval(pt):
                    s = float(np.sum(pv(pt)))
                    return float(coef[tuple(pt[n] for n, s_ in fins)]) * s + 0.5 * s * s
            else:
                tab = np.asarray(case["ftab"], dtype=float).reshape((size,) + fshape)
                f = Tensor(tab, OrderedDict([("v", Bint[size])] + [(n, Bint[s]) for n, s in fins]))

                def fval(pt):
                    return tab[(int(pv(pt)),) + tuple(pt[n] for n, s_ in fins)]
            try:
                if how == "reduce":
                    r = (d + f).reduce(ops.logaddexp, "v")
                else:
                    r = Integrate(d, f, frozenset([Variable("v", dom)]))
            except Exception as e:
                raise Decline("delta-" + how + "-raised:" + innermost_funsor_frame(e))
            if "v" in r.inputs:
                raise Violation("delta-var-not-eliminated", f"{how}: inputs {list(r.inputs)}: {self.describe(case)}")
            for idx in itertools.product(*[range(s) for n, s in allb]):
                pt = dict(zip([n for n, s in allb], idx))
                want = (fval(pt) + ldv(pt)) if how == "reduce" else math.exp(ldv(pt)) * fval(pt)
                got = eval_at(r, pt)
                if not close(got, want):
                    raise Violation("delta-" + how, f"at {pt}: funsor {np.asarray(got).tolist()} expected {want}: {self.describe(case)}")
        stt.count("completed")
        stt.mark_nontrivial(case_hash(case))

    def check_delta_gauss(self, case, stt):
        import funsor.interpretations as I
        from funsor import Reals, Variable, ops
        from funsor.delta import Delta
        from funsor.integrate import Integrate
        from funsor.interpreter import reinterpret
        from funsor.terms import Number
        from vf.build import build, eval_at
        from vf.lang import int_points, real_points

        leaf = case["gauss"]
        terms = [(n, pt) for n, pt in case["terms"]]
        how = case["how"]
        stt.count("delta_gauss:" + how + ":" + case["mode"])

        def run():
            g = build(leaf)
            pts = [(n, build(pt)) for n, pt in terms]
            if how == "subs":
                from collections import OrderedDict

                return g(**OrderedDict(pts))
            zero = Number(0.0)
            if case["one_delta"]:
                d = Delta(tuple((n, (p_, zero)) for n, p_ in pts))
            else:
                d = None
                for n, p_ in pts:
                    d1 = Delta(n, p_, zero)
                    d = d1 if d is None else d + d1
            vs = frozenset(Variable(n, Reals[tuple(REAL_POOL[n])]) for n, p_ in pts)
            if how == "integrate":
                return Integrate(d, g, vs)
            return (d + g).reduce(ops.logaddexp, vs)

        try:
            if case["mode"] == "eager":
                r = run()
            else:
                with I.lazy:
                    t = run()
                r = reinterpret(t)
        except Exception as e:
            raise Decline("delta-gauss-raised:" + innermost_funsor_frame(e))
        bound = {n for n, pt in terms}
        if bound & set(r.inputs):
            raise Violation("delta-gauss-var-not-eliminated", f"{how}: inputs {list(r.inputs)}: {self.describe(case)}")
        inputs = dict(typeof(leaf)[0])
        for n, pt in terms:
            inputs.update(typeof(pt)[0])
        free = {n: d for n, d in inputs.items() if n not in bound}
        if not set(r.inputs) <= set(free):
            raise Violation("delta-gauss-inputs", f"{how}: inputs {list(r.inputs)} not among {sorted(free)}: {self.describe(case)}")
        orc = Oracle()
        for rp in real_points(free, 2):
            for ip in int_points(free):
                env = dict(rp)
                env.update(ip)
                env2 = dict(env)
                for n, pt in terms:
                    env2[n] = np.asarray(orc.ev(pt, env), dtype=float)
                want = float(orc.ev(leaf, env2))
                try:
                    got = eval_at(r, {k: v for k, v in env.items() if k in r.inputs})
                except Decline:
                    raise
                except Exception as e:
                    raise Decline("delta-gauss-binding-raised:" + innermost_funsor_frame(e))
                if not close(got, want):
                    raise Violation("delta-gauss-" + how, f"at {env}: funsor {np.asarray(got).tolist()} Gaussian at the point {want}: {self.describe(case)}")
        stt.count("completed")
        stt.mark_nontrivial(case_hash(case))

    # ------------------------------------------------------------ Tensor sampling
    def check_tensor_sample(self, case, stt):
        from collections import OrderedDict

        from funsor import Bint, Real, Tensor, ops
        from vf.build import eval_at

        tins = [tuple(x) for x in case["ins"]]
        data = np.asarray(case["data"], dtype=float).reshape(tuple(s for n, s in tins))
        sampled = list(case["sampled"])
        sis = [tuple(x) for x in case["sample_inputs"]]
        batch_axes = [i for i, (n, s) in enumerate(tins) if n not in sampled]
        if case.get("row_offset") and batch_axes:
            ax = batch_axes[0]
            shape_ = [1] * data.ndim
            shape_[ax] = data.shape[ax]
            data = data + case["row_offset"] * np.arange(data.shape[ax]).reshape(shape_)
            stt.count("tensor_sample:row-offset")
        x = Tensor(data, OrderedDict((n, Bint[s]) for n, s in tins))
        batch = [(n, s) for n, s in tins if n not in sampled]
        ev = [(n, s) for n, s in tins if n in sampled]
        # a batch element whose sampled slice is entirely -inf has no distribution to sample from
        red_axes = tuple(i for i, (n, s) in enumerate(tins) if n in sampled)
        if np.isneginf(np.max(data, axis=red_axes)).any():
            raise Decline("all -inf slice (no distribution)")

        def draw():
            np.random.seed(case["seed"])
            return x.sample(frozenset(sampled), OrderedDict((n, Bint[s]) for n, s in sis))

        try:
            y = draw()
        except Exception as e:
            raise Decline("sample-raised:" + innermost_funsor_frame(e))
        want_inputs = {n for n, s in tins} | {n for n, s in sis}
        if set(y.inputs) != want_inputs or y.output != Real:
            raise Violation("sample-type", f"inputs {sorted(y.inputs)} (expected {sorted(want_inputs)}), output {y.output}: {self.describe(case)}")
        total = y.reduce(ops.logaddexp, frozenset(sampled))
        m_ = np.max(data, axis=red_axes, keepdims=True)  # per batch element (a global shift would underflow whole rows)
        want_total = np.log(np.sum(np.exp(data - m_), axis=red_axes)) + np.squeeze(m_, axis=red_axes)
        sb = sis + batch
        full = sis + tins
        ytab = table_of(y, full)
        for sidx in itertools.product(*[range(s) for n, s in sb]):
            spt = dict(zip([n for n, s in sb], sidx))
            bidx = tuple(spt[n] for n, s in batch)
            got = eval_at(total, spt)
            if not close(got, want_total[bidx] if batch else want_total):
                raise Violation("sample-mass", f"particle/batch {spt}: mass {np.asarray(got).tolist()} original {np.asarray(want_total[bidx] if batch else want_total).tolist()}: {self.describe(case)}")
            # support: exactly one event index carries the mass, and it has positive probability
            hits = []
            for eidx in itertools.product(*[range(s) for n, s in ev]):
                pt = dict(spt)
                pt.update(dict(zip([n for n, s in ev], eidx)))
                key = tuple(pt[n] for n, s in full)
                if ytab[key] > NEG:
                    hits.append(pt)
            if len(hits) != 1:
                raise Violation("sample-not-a-point-mass", f"particle/batch {spt}: {len(hits)} points with mass: {self.describe(case)}")
            didx = tuple(hits[0][n] for n, s in tins)
            if not data[didx] > NEG:
                raise Violation("sample-outside-support", f"sampled point {hits[0]} has probability zero: {self.describe(case)}")
        y2 = draw()
        ytab2 = table_of(y2, full)
        if any(not close(ytab[k], ytab2[k]) for k in ytab):
            raise Violation("sample-not-deterministic", f"same seed, different sample: {self.describe(case)}")
        # the sample used as a measure: integrating a table against it over the sampled inputs and over more (or fewer) of
        # its inputs equals the sum of exp(sample) * table over those inputs, point by point
        if not case.get("row_offset"):
            from funsor import Variable
            from funsor.integrate import Integrate

            ftab = 0.25 * (1 + (np.arange(data.size) * 3 + case["seed"]) % 8).reshape(data.shape)
            fterm = Tensor(ftab, OrderedDict((n, Bint[s]) for n, s in tins))
            choices = [list(sampled)]
            if batch:
                choices.append(list(sampled) + [batch[case["seed"] % len(batch)][0]])
                choices.append(list(sampled) + [n for n, s in batch])
            if len(sampled) > 1:
                choices.append(list(sampled)[:1])
            for vs in choices:
                try:
                    r_int = Integrate(y, fterm, frozenset(Variable(n, Bint[dict(tins)[n]]) for n in vs))
                    kept = [(n, s) for n, s in full if n not in vs]
                    rtab = table_of(r_int, kept)
                except Exception as e:
                    stt.count("sample-as-measure-raised:" + innermost_funsor_frame(e))
                    continue
                for kidx in itertools.product(*[range(s) for n, s in kept]):
                    kpt = dict(zip([n for n, s in kept], kidx))
                    acc = 0.0
                    for vidx in itertools.product(*[range(dict(tins)[n]) for n in vs]):
                        pt = dict(kpt)
                        pt.update(dict(zip(vs, vidx)))
                        lw = float(ytab[tuple(pt[n] for n, s in full)])
                        if lw > NEG:
                            acc += math.exp(lw) * float(ftab[tuple(pt[n] for n, s in tins)])
                    if not close(rtab[kidx], acc):
                        raise Violation("sample-as-measure", f"Integrate(sample, f, {vs}) at {kpt}: {np.asarray(rtab[kidx]).tolist()} but the sum of exp(sample) * f over {vs} is {acc}: {self.describe(case)}")
                stt.count("sample-as-measure:" + ("superset" if len(vs) > len(sampled) else "subset" if len(vs) < len(sampled) else "same"))
        stt.count("completed")
        if (batch and sis) or np.isneginf(data).any():
            stt.mark_nontrivial(case_hash(case))

    # ------------------------------------------------------------ Gaussian sampling
    def check_mixture_sample(self, case, stt):
        from collections import OrderedDict

        from funsor import Bint, Real, Reals, Variable, ops
        from vf.build import build, eval_at
        from vf.lang import NotNormalizable, int_points, real_points

        leaf, w = case["gauss"], case["weights"]
        node = ("bin", "add", w, leaf)
        si, sr = list(case["sampled_ints"]), list(case["sampled_reals"])
        sis = [tuple(x) for x in case["sample_inputs"]]
        f = build(node)
        inputs0 = typeof(node)[0]
        sizes = {n: d[0] for n, d in inputs0.items() if d[0] != "real"}
        si = [n for n in si if n in sizes]
        if not si:
            raise Decline("nothing integer to sample")
        sample_inputs = OrderedDict((n, Bint[s_]) for n, s_ in sis)

        def draw():
            np.random.seed(case["seed"])
            if case["two_calls"]:
                first, second = (sr, si) if case["reals_first"] else (si, sr)
                y_ = f.sample(frozenset(first), sample_inputs)
                return y_.sample(frozenset(second), sample_inputs) if second else y_
            return f.sample(frozenset(si + sr), sample_inputs)

        try:
            y = draw()
        except Exception as e:
            raise Decline("sample-raised:" + innermost_funsor_frame(e))
        want_inputs = set(inputs0) | {n for n, s_ in sis}
        if set(y.inputs) != want_inputs or y.output != Real:
            raise Violation("mixture-sample-type", f"inputs {sorted(y.inputs)} expected {sorted(want_inputs)}: {self.describe(case)}")
        # an integer variable of a Tensor + Gaussian mixture is drawn from the weights times the Gaussian's normaliser (all
        # real inputs integrated out), so the mass that is preserved is the one over the sampled variables AND every real
        # input of the Gaussian (by design: Contraction._sample, "sample greedily")
        allreals = [n for n, sh in leaf[2]]
        vs = tuple((n, sizes[n]) for n in si) + tuple((n, ("real", REAL_POOL[n])) for n in allreals)
        marg = ("red", "logaddexp", node, vs)
        try:
            total = y.reduce(ops.logaddexp, frozenset([Variable(n, Bint[sizes[n]]) for n in si] + [Variable(n, Reals[REAL_POOL[n]]) for n in allreals]))
        except Exception as e:
            raise Decline("reduce-sample-raised:" + innermost_funsor_frame(e))
        inputs = typeof(marg)[0]
        orc = Oracle()
        for rp in real_points(inputs, 2):
            for ip in int_points(inputs):
                pt = dict(ip)
                pt.update(rp)
                try:
                    want = orc.ev(marg, pt)
                except NotNormalizable:
                    raise Decline("not-normalizable")
                for sidx in itertools.product(*[range(s_) for n, s_ in sis]):
                    p2 = dict(pt)
                    p2.update(dict(zip([n for n, s_ in sis], sidx)))
                    got = eval_at(total, p2)
                    if not close(got, want):
                        raise Violation("mixture-sample-mass", f"at {p2}: mass of the sample {np.asarray(got).tolist()} vs marginal {np.asarray(want).tolist()}: {self.describe(case)}")
        stt.count("completed")
        stt.mark_nontrivial(case_hash(case))

    def check_gauss_sample(self, case, stt):
        from collections import OrderedDict

        from funsor import Bint, Real, Reals, ops
        from vf.build import build, eval_at
        from vf.lang import NotNormalizable, int_points, real_points

        leaf = case["gauss"]
        sampled = list(case["sampled"])
        sis = [tuple(x) for x in case["sample_inputs"]]
        g = build(leaf)
        if not hasattr(g, "white_vec"):
            raise Decline("constructor returned a compressed mixture")

        def draw():
            np.random.seed(case["seed"])
            return g.sample(frozenset(sampled), OrderedDict((n, Bint[s]) for n, s in sis))

        try:
            y = draw()
        except Exception as e:
            raise Decline("sample-raised:" + innermost_funsor_frame(e))
        want_inputs = set(typeof(leaf)[0]) | {n for n, s in sis}
        if set(y.inputs) != want_inputs or y.output != Real:
            raise Violation("gauss-sample-type", f"inputs {sorted(y.inputs)} expected {sorted(want_inputs)}: {self.describe(case)}")
        rv = tuple((n, ("real", REAL_POOL[n])) for n in sampled)
        marg = ("red", "logaddexp", leaf, rv)
        from funsor import Variable

        try:
            total = y.reduce(ops.logaddexp, frozenset(Variable(n, Reals[REAL_POOL[n]]) for n in sampled))
        except Exception as e:
            raise Decline("reduce-sample-raised:" + innermost_funsor_frame(e))
        inputs = typeof(marg)[0]
        orc = Oracle()
        for rp in real_points(inputs, 2):
            for ip in int_points(inputs):
                pt = dict(ip)
                pt.update(rp)
                try:
                    want = orc.ev(marg, pt)
                except NotNormalizable:
                    raise Decline("not-normalizable")
                for sidx in itertools.product(*[range(s) for n, s in sis]):
                    p2 = dict(pt)
                    p2.update(dict(zip([n for n, s in sis], sidx)))
                    got = eval_at(total, p2)
                    if not close(got, want):
                        raise Violation("gauss-sample-mass", f"at {p2}: mass of sample {np.asarray(got).tolist()} vs marginal {np.asarray(want).tolist()}: {self.describe(case)}")
        # determinism: same seed gives the same Delta points
        y2 = draw()
        p1, p2 = self.delta_points(y), self.delta_points(y2)
        if set(p1) != set(p2) or any(not np.array_equal(np.asarray(p1[k].data), np.asarray(p2[k].data)) for k in p1 if hasattr(p1[k], "data")):
            raise Violation("gauss-sample-not-deterministic", self.describe(case))
        if set(p1) != set(sampled):
            raise Violation("gauss-sample-points", f"Delta points for {sorted(p1)}, sampled {sorted(sampled)}: {self.describe(case)}")
        stt.count("completed")
        if sis and leaf[1]:
            stt.mark_nontrivial(case_hash(case))
        elif len(sampled) < len(leaf[2]):
            stt.mark_nontrivial(case_hash(case))

    @staticmethod
    def delta_points(y):
        from funsor.delta import Delta

        out = {}
        stack = [y]
        while stack:
            t = stack.pop()
            if isinstance(t, Delta):
                for name, (point, ld) in t.terms:
                    out[name] = point
            elif hasattr(t, "terms"):
                stack.extend(t.terms)
        return out

    def check_gauss_reparam(self, case, stt):
        from collections import OrderedDict

        from funsor import Reals
        from vf.build import build, eval_at

        leaf = case["gauss"]
        sampled = list(case["sampled"])
        ints = [(n, s) for n, s in leaf[1]]
        reals = [(n, tuple(sh)) for n, sh in leaf[2]]
        if set(sampled) != {n for n, sh in reals}:
            raise Decline("reparam:partial sampling needs remaining reals (covered by gauss_sample)")
        g = build(leaf)
        if not hasattr(g, "white_vec"):
            raise Decline("constructor returned a compressed mixture")
        D = sum(numel(sh) for n, sh in reals)
        bshape = tuple(s for n, s in ints)
        noise_dom = Reals[bshape + (D,)]
        try:
            y = g.sample(frozenset(sampled), OrderedDict(noise=noise_dom))
        except Exception as e:
            raise Decline("reparam-raised:" + innermost_funsor_frame(e))
        pts = self.delta_points(y)
        if set(pts) != set(sampled):
            raise Violation("reparam-points", f"{sorted(pts)} vs {sorted(sampled)}: {self.describe(case)}")
        rank = leaf[4]
        w = np.asarray(leaf[5], dtype=float).reshape(bshape + (rank,))
        S = np.asarray(leaf[6], dtype=float).reshape(bshape + (D, rank))

        def sample_at(eps, ip):
            xs = []
            for n, sh in reals:
                v = eval_at(pts[n], dict(ip, noise=eps))
                xs.append(np.asarray(v, dtype=float).reshape(-1))
            return np.concatenate(xs)

        for idx in itertools.product(*[range(s) for s in bshape]):
            ip = dict(zip([n for n, s in ints], idx))
            Pm = S[idx] @ S[idx].T
            eta = S[idx] @ w[idx]
            cov = np.linalg.inv(Pm)
            mu = cov @ eta
            zero = np.zeros(bshape + (D,))
            m = sample_at(zero, ip)
            if not close(m, mu):
                raise Violation("reparam-mean", f"batch {ip}: sample at zero noise {m.tolist()} vs mean {mu.tolist()}: {self.describe(case)}")
            A = np.zeros((D, D))
            for j in range(D):
                e = np.zeros(bshape + (D,))
                e[idx + (j,)] = 1.0
                A[:, j] = sample_at(e, ip) - m
            # affine: check at a combination
            comb = np.zeros(bshape + (D,))
            coefs = np.array([0.5 * (j + 1) * (-1) ** j for j in range(D)])
            comb[idx] = coefs
            if not close(sample_at(comb, ip), m + A @ coefs):
                raise Violation("reparam-not-affine", f"batch {ip}: {self.describe(case)}")
            if not close(A @ A.T, cov):
                raise Violation("reparam-covariance", f"batch {ip}: A A' = {(A @ A.T).tolist()} vs covariance {cov.tolist()}: {self.describe(case)}")
        stt.count("completed")
        stt.mark_nontrivial(case_hash(case))


PROP = C14()
