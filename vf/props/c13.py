"""C13 — Gaussian marginals, normalisers and integrals are exact."""
import itertools
import math

import numpy as np
from hypothesis import strategies as st
from vf.core import robust_gen

from vf.core import Decline, Prop, Violation, case_hash, innermost_funsor_frame
from vf.gen import G, REAL_POOL, WVALS, HypSource, Opts, SeedSource, gauss_leaf
from vf.lang import (
    NotNormalizable,
    Oracle,
    OutOfDomain,
    Undecided,
    ast_shrinks,
    close,
    int_points,
    real_points,
    show,
    typeof,
    walk,
)
from vf.props.c01 import ast_signature

KINDS = ["marginal", "marginal", "lognorm", "plate", "mixture", "mixture_all", "twostep", "integrate_var", "integrate_gauss", "moment", "deficient", "boundary", "integrate_signed", "gauss_all", "gauss_all", "gauss_all", "mixture_pair", "reuse"]


def rspec(name):
    return (name, ("real", REAL_POOL[name]))


def gen_case(src):
    g = G(src, Opts(gauss=True))
    avail = set(g.sizes)
    kind = g.pick(KINDS)
    mode = "deficient" if kind in ("deficient", "boundary") else g.pick(["full", "full", "over"])
    leaf = gauss_leaf(g, avail, rank_mode=mode)
    reals = [n for n, sh in leaf[2]]
    ints = [(n, s) for n, s in leaf[1]]
    body = leaf
    if kind in ("mixture", "mixture_all", "moment") or (kind in ("marginal", "twostep") and g.chance(0.3)):
        if not ints:
            a = g.pick(sorted(avail))
            ints = [(a, g.sizes[a])]
            leaf = gauss_leaf(g, avail, rank_mode=mode)
            for _ in range(6):
                if leaf[1]:
                    break
                leaf = gauss_leaf(g, avail, rank_mode=mode)
            reals = [n for n, sh in leaf[2]]
            ints = [(n, s) for n, s in leaf[1]]
            body = leaf
        if ints:
            tnames = g.subset([n for n, s in ints], 1, len(ints))
            ins = tuple((n, g.sizes[n]) for n in tnames)
            t = ("ten", ins, (), "real", g.expand(WVALS, g.numel([s for n, s in ins])), False)
            body = ("bin", "add", t, leaf) if g.chance(0.5) else ("bin", "add", leaf, t)
    if kind in ("marginal", "lognorm", "twostep") and g.chance(0.3):
        other = gauss_leaf(g, avail, rank_mode="full", real_names=reals[: g.rint((1, len(reals)))])
        body = ("bin", "add", body, other)
    inp = typeof(body)[0]
    reals = sorted(n for n, d in inp.items() if d[0] == "real")
    ints = sorted(n for n, d in inp.items() if d[0] != "real")
    rv = lambda names: tuple(rspec(n) for n in names)  # noqa: E731
    iv = lambda names: tuple((n, inp[n][0]) for n in names)  # noqa: E731
    if kind == "boundary":
        # the integrated block has exactly rank or rank + 1 dimensions: the last block that must be
        # integrated exactly, and the first one for which an error is required
        dim = lambda names: sum(int(np.prod(REAL_POOL[n])) if REAL_POOL[n] else 1 for n in names)  # noqa: E731
        want = leaf[4] + (1 if g.chance(0.5) else 0)
        subsets = [list(c) for k in range(1, len(reals) + 1) for c in itertools.combinations(reals, k) if dim(c) == want]
        sub = g.pick(subsets) if subsets else g.subset(reals, 1, len(reals))
        node = ("red", "logaddexp", body, rv(sub))
    elif kind in ("marginal", "deficient"):
        sub = g.subset(reals, 1, len(reals))
        node = ("red", "logaddexp", body, rv(sub))
    elif kind == "lognorm":
        node = ("red", "logaddexp", body, rv(reals))
    elif kind == "plate":
        if not ints:
            node = ("red", "logaddexp", body, rv(reals))
        else:
            node = ("red", "add", body, iv(g.subset(ints, 1, len(ints))))
    elif kind == "mixture":
        node = ("red", "logaddexp", body, iv(g.subset(ints, 1, len(ints)))) if ints else ("red", "logaddexp", body, rv(reals))
    elif kind == "mixture_all":
        node = ("red", "logaddexp", body, iv(g.subset(ints, 1, len(ints))) + rv(g.subset(reals, 1, len(reals))))
    elif kind == "twostep":
        a = g.subset(reals, 1, len(reals))
        rest = [r for r in reals if r not in a]
        node = ("red", "logaddexp", body, rv(a))
        if rest:
            node = ("red", "logaddexp", node, rv(g.subset(rest, 1, len(rest))))
        elif ints:
            node = ("red", "logaddexp", node, iv(ints[:1]))
    elif kind == "integrate_var":
        x = g.pick(reals)
        ig = ("var", x, ("real", REAL_POOL[x]))
        if REAL_POOL[x] != ():
            ig = ("unp", "sum", (None, False), ig)
        if g.chance(0.4):
            ig = ("bin", "mul", ig, ig)
        node = ("integrate", body, ig, rv(reals))
    elif kind == "integrate_gauss":
        names = g.subset(reals, 1, len(reals))
        g2 = gauss_leaf(g, avail, rank_mode=g.pick(["full", "over", "deficient"]), real_names=g.perm(names))
        node = ("integrate", body, g2, rv(reals))
    elif kind == "gauss_all":
        # a bare Gaussian whose integer inputs sit between its real inputs: one reduction takes integer and real inputs
        # together and keeps at least one real input
        trio = g.perm(g.pick([["x", "z", "y"], ["x", "z", "y"], ["x", "z", "u"], ["x", "y"], ["z", "u"]]))
        leaf2 = gauss_leaf(g, avail, rank_mode=g.pick(["full", "over"]), real_names=trio)
        for _ in range(6):
            if leaf2[1]:
                break
            leaf2 = gauss_leaf(g, avail, rank_mode=g.pick(["full", "over"]), real_names=trio)
        rr = [n for n, sh in leaf2[2]]
        ii = [(n, s_) for n, s_ in leaf2[1]]
        # the kept real input is often one with reduced inputs (real and integer) on both sides of it
        keep = rr[len(rr) // 2] if len(rr) >= 3 and g.chance(0.6) else g.pick(rr)
        red_r = [n for n in rr if n != keep]
        red_r = g.subset(red_r, 1, len(red_r)) if red_r else []
        red_i = g.subset(ii, 1, len(ii)) if ii else []
        node = ("red", "logaddexp", leaf2, tuple(red_i) + rv(red_r)) if (red_i or red_r) else ("red", "logaddexp", leaf2, rv(rr))
    elif kind == "reuse":
        # one Gaussian object used twice: normalised (or marginalised) as it is - which fills its lazily cached
        # factorisations - and again after one of its integer inputs was renamed / sliced / indexed / bound
        lf = leaf
        for _ in range(8):
            if lf[1]:
                break
            lf = gauss_leaf(g, avail, rank_mode=g.pick(["full", "over"]))
        rr = [n for n, sh in lf[2]]
        ii = [(n, s_) for n, s_ in lf[1]]
        first_vars = rr if g.chance(0.6) else g.subset(rr, 1, len(rr))
        first = ("red", "logaddexp", lf, rv(first_vars))
        second_src = lf
        if ii:
            iname, isz = g.pick(ii)
            r = g.rint((0, 4))
            if r == 0:
                val = ("pynum", g.rint((0, isz - 1)))
            elif r == 1:
                val = g.slice_node(avail, isz)
            elif r == 2:
                val = g.ten(avail, (isz, ()))
            else:
                val = ("pyname", g.fresh(isz))
            second_src = ("sub", lf, ((iname, val),))
        second_vars = rr if g.chance(0.7) else g.subset(rr, 1, len(rr))
        second = ("red", "logaddexp", second_src, rv(second_vars))
        if g.chance(0.3):
            second = ("red", "logaddexp", second, tuple((n_, d_[0]) for n_, d_ in typeof(second)[0].items() if d_[0] != "real")[:1]) if any(d_[0] != "real" for d_ in typeof(second)[0].values()) else second
        node = ("bin", "add", first, second) if g.chance(0.8) else ("bin", "add", second, first)
    elif kind == "mixture_pair":
        # two Tensor + Gaussian mixtures contracted together; an integer variable of the weights that no Gaussian mentions
        # is among the reduced ones
        nm = sorted(avail)
        i_, j_ = nm[0], nm[1 % len(nm)]
        shared_r = g.subset(reals, 1, len(reals))
        g1 = gauss_leaf(g, set(), rank_mode="full", real_names=g.perm(shared_r))
        g2 = ("gauss",) + tuple(gauss_leaf(g, {j_} if j_ != i_ else set(), rank_mode=g.pick(["full", "over"]), real_names=g.perm(shared_r))[1:])
        def ten_(names_):
            ins_ = tuple((n, g.sizes[n]) for n in dict.fromkeys(names_))
            return ("ten", ins_, (), "real", g.expand(WVALS, g.numel([s_ for _, s_ in ins_])), False)
        t1 = ten_([i_])
        t2 = ten_([i_] + ([j_] if j_ != i_ and j_ in dict(g2[1]) else []))
        m1 = ("bin", "add", t1, g1) if g.chance(0.5) else ("bin", "add", g1, t1)
        m2 = ("bin", "add", t2, g2) if g.chance(0.5) else ("bin", "add", g2, t2)
        both = ("bin", "add", m1, m2)
        vs_ = ((i_, g.sizes[i_]),) + (rv(g.subset(shared_r, 1, len(shared_r))) if g.chance(0.5) else ())
        node = ("red", "logaddexp", both, vs_)
        typeof(node)
        return {"kind": kind, "ast": node, "direct": g.chance(0.6)}
    elif kind == "integrate_signed":
        # integrands that are signed / transformed Gaussians and sums of them: -g2, (-g2) + g1, g1 - g2, exp(g2) + g1
        mk = lambda: gauss_leaf(g, avail, rank_mode=g.pick(["full", "over"]), real_names=g.perm(g.subset(reals, 1, len(reals))))  # noqa: E731
        g1, g2 = mk(), mk()
        r = g.rint((0, 5))
        if r == 0:
            ig = ("un", "neg", g2)
        elif r == 1:
            ig = ("bin", "add", ("un", "neg", g2), g1)
        elif r == 2:
            ig = ("bin", "add", g1, ("un", "neg", g2))
        elif r == 3:
            ig = ("bin", "sub", g1, g2)
        elif r == 4:
            ig = ("bin", "add", ("un", g.pick(["exp", "abs"]), g2), g1)
        else:
            ig = ("bin", "add", ("un", "neg", g2), ("un", "neg", g1))
        node = ("integrate", body, ig, rv(reals))
    else:  # moment
        node = ("red", "logaddexp", body, iv(ints[:1])) if ints else ("red", "logaddexp", body, rv(reals))
    typeof(node)
    return {"kind": kind, "ast": node}


def cases():
    @st.composite
    def _structured(draw):
        return gen_case(HypSource(draw))

    seeded = st.integers(0, 2**40).map(robust_gen(lambda s: gen_case(SeedSource(s))))
    return st.one_of(_structured(), seeded, seeded, seeded)


def dense_from_points(fn, shapes):
    """(P, eta, c) of a quadratic function given as a black box over real blocks."""
    return Oracle()._probe_quadratic(fn, shapes)


def jitter_gaussians(node):
    """The same expression with every entry of every Gaussian square-root factor moved by a fixed small amount (at most 0.025)."""
    if not isinstance(node, tuple):
        return node
    if node and node[0] == "gauss":
        S = tuple(v + 0.05 * (((i + 1) * 0.6180339887498949) % 1.0 - 0.5) for i, v in enumerate(node[6]))
        return node[:6] + (S,) + node[7:]
    return tuple(jitter_gaussians(x) for x in node)


class C13(Prop):
    id = "C13"
    rule = (
        "full-rank / over-complete Gaussians (C12 family; sums of two; mixtures Tensor+Gaussian over 1-2 integer inputs) with integer and "
        "real inputs in every interleaving, then: marginalise any subset of real inputs, log-normaliser, plate sums over batch inputs, mixture "
        "reduction over integer (and real) inputs, two-step marginalisation, Integrate(g, x | sum x | (sum x)^2), Integrate(g, g2) with g2's inputs "
        "permuted, moment_matching of a mixture (mass, mean, covariance), and rank-deficient marginals (must raise). Oracle: closed forms "
        "(Schur complement / log-det / E[quadratic]) on dense (P, eta, c) obtained by probing the point-wise reference evaluator. Completion is "
        "required on full-rank inputs; non-trivial = interleaved integer/real inputs, or rank == marginalised dimension, or a mixture"
    )
    assumptions = (
        "dense coefficients are recovered from the point-wise oracle by exact finite differences of a quadratic (verified at an extra point)",
        "numpy.linalg (solve, slogdet, inv, eigvalsh) on <=5x5 well-conditioned matrices",
    )
    cases = {"quick": 6000, "thorough": 80000}

    def strategy(self, tier):
        return cases()

    def describe(self, case):
        return f"[{case['kind']}] {show(case['ast'])}"

    def signature(self, case):
        return case["kind"] + "|" + ast_signature(case["ast"])

    def shrink_candidates(self, case):
        for c in ast_shrinks(case["ast"]):
            yield dict(case, ast=c)

    def check(self, case, stt):
        import funsor.interpretations as I
        from funsor.tensor import Tensor
        from funsor.terms import Number
        from vf.build import build, eval_at, funsor_type

        node, kind = case["ast"], case["kind"]
        stt.count("kind:" + kind)
        inputs, out = typeof(node)
        gs = [n for n in walk(node) if n[0] == "gauss"]
        interleaved = any("ri" in "".join("i" if n in dict(g_[1]) else "r" for n in g_[3]) for g_ in gs)
        if interleaved:
            stt.count("real-before-int")
        all_full = all(g_[4] >= sum(int(np.prod(sh)) if sh else 1 for n, sh in g_[2]) for g_ in gs)

        # oracle first: do we expect a number, an error, or is it undecided?
        orc = Oracle()
        table = {}
        NN = "not-normalizable"
        try:
            for rp in real_points(inputs, 2):
                for ip in int_points(inputs):
                    pt = dict(ip)
                    pt.update(rp)
                    key = tuple(sorted((k, str(v)) for k, v in pt.items()))
                    try:
                        table[key] = (pt, orc.ev(node, pt))
                    except NotNormalizable:
                        table[key] = (pt, NN)
        except Undecided:
            raise Decline("undecided(no closed form)")
        except OutOfDomain:
            raise Decline("oracle-out-of-domain")
        # A singular block is "not normalizable" by necessity only when the square-root factor has too few columns
        # for the integrated block; a factor with enough columns that happens to be singular for one batch element
        # (proportional rows on the value grid) cannot be told from a nearly singular one in floating point.  The two
        # are separated by jittering every factor: structural deficiency survives the jitter, coincidence does not.
        if any(v is NN for pt, v in table.values()):
            jit = jitter_gaussians(node)
            orc2 = Oracle()
            for key, (pt, want) in list(table.items()):
                if want is not NN:
                    continue
                try:
                    orc2.ev(jit, pt)
                except NotNormalizable:
                    continue
                except (Undecided, OutOfDomain):
                    pass
                stt.count("coincidentally-singular-block(point skipped)")
                del table[key]
            if not table:
                raise Decline("every point coincidentally singular")
        # an error is required only when no batch element is normalizable
        expect_error = all(v is NN for pt, v in table.values())
        some_nn = any(v is NN for pt, v in table.values())

        mm = kind == "moment"
        try:
            if mm:
                with I.moment_matching:
                    r = build(node)
            elif kind == "mixture_pair" and case.get("direct"):
                # the two mixtures are handed to Contraction as two operands (not fused by + first)
                from funsor import Bint, Reals, Variable, ops
                from funsor.cnf import Contraction

                m1, m2 = build(node[2][2]), build(node[2][3])
                vs = frozenset(Variable(n_, Reals[tuple(s_[1])]) if isinstance(s_, (tuple, list)) else Variable(n_, Bint[s_]) for n_, s_ in node[3])
                r = Contraction(ops.logaddexp, ops.add, vs, m1, m2)
                stt.count("two-mixtures-as-two-operands")
            else:
                r = build(node)
        except (MemoryError, RecursionError):
            raise
        except Exception as e:
            if expect_error:
                stt.count("raised-as-required")
                stt.mark_nontrivial(case_hash(case))
                return
            if all_full and kind in ("marginal", "lognorm", "plate", "mixture", "twostep", "mixture_all"):
                raise Violation("full-rank-operation-raised:" + innermost_funsor_frame(e), f"{type(e).__name__}: {str(e)[:150]} for {self.describe(case)}")
            raise Decline("raised:" + innermost_funsor_frame(e))

        fin, fout = funsor_type(r)
        if not set(fin) <= set(inputs):
            raise Violation("extra-inputs", f"result inputs {sorted(fin)} vs {sorted(inputs)}: {self.describe(case)}")
        if some_nn:
            # batch elements whose integrated block is singular must not evaluate to a finite number
            for key, (pt, want) in table.items():
                if want is not NN:
                    continue
                try:
                    got = eval_at(r, pt)
                except Exception:
                    stt.count("raised-as-required(lazy)")
                    continue
                if np.isfinite(np.asarray(got, dtype=float)).all():
                    raise Violation("number-from-non-normalizable", f"at {pt}: rank-deficient block integrated to {np.asarray(got).tolist()}: {self.describe(case)}")
            if expect_error:
                return

        if mm:
            if some_nn:
                raise Decline("moment:some-components-not-normalizable")
            return self.check_moment(case, node, r, inputs, stt)

        for key, (pt, want) in table.items():
            if want is NN:
                continue
            try:
                got = eval_at(r, pt)
            except Decline as d:
                if all_full and kind in ("marginal", "lognorm", "plate", "twostep"):
                    raise Violation("full-rank-operation-stays-lazy", f"{d.bucket}: {self.describe(case)}")
                raise
            except Exception as e:
                raise Decline("binding-raised:" + innermost_funsor_frame(e))
            if not close(got, want):
                raise Violation("wrong-value", f"at {pt}: funsor {np.asarray(got).tolist()} closed form {np.asarray(want).tolist()} for {self.describe(case)}")
        stt.count("completed")
        if interleaved or kind in ("mixture", "mixture_all") or any(g_[4] == sum(int(np.prod(sh)) if sh else 1 for n, sh in g_[2]) for g_ in gs):
            stt.mark_nontrivial(case_hash(case))

    def check_moment(self, case, node, r, inputs, stt):
        """moment_matching of a mixture: total mass, mean and covariance are preserved."""
        from vf.build import eval_at

        if node[0] != "red" or any(isinstance(s, (tuple, list)) for n, s in node[3]):
            raise Decline("moment:not-an-integer-mixture")
        body, vs = node[2], node[3]
        binp = typeof(body)[0]
        reals = sorted(n for n, d in binp.items() if d[0] == "real")
        shapes = [binp[n][1] for n in reals]
        other_ints = {n: d for n, d in inputs.items() if d[0] != "real"}
        orc = Oracle()
        for ip in int_points(other_ints):
            comps = []
            for idx in itertools.product(*[range(s) for n, s in vs]):
                e2 = dict(ip)
                e2.update({n: i for (n, s), i in zip(vs, idx)})

                def fn(parts, e2=e2):
                    e3 = dict(e2)
                    e3.update(dict(zip(reals, parts)))
                    return orc.ev(body, e3)

                comps.append(orc._probe_quadratic(fn, shapes))

            def fr(parts):
                pt = dict(ip)
                pt.update(dict(zip(reals, parts)))
                return eval_at(r, pt)

            try:
                Pr, er, cr = orc._probe_quadratic(fr, shapes)
            except Undecided:
                raise Decline("moment:result-not-quadratic(stayed a mixture)")
            except Decline:
                raise

            def stats(P, eta, c):
                D = len(eta)
                cov = np.linalg.inv(P)
                mu = cov @ eta
                sign, logdet = np.linalg.slogdet(P)
                return c + 0.5 * (D * math.log(2 * math.pi) - logdet + eta @ mu), mu, cov

            logz, mus, covs = zip(*[stats(*c) for c in comps])
            m = max(logz)
            w = np.exp(np.array(logz) - m)
            total = m + math.log(w.sum())
            pi = w / w.sum()
            mean = sum(p * mu for p, mu in zip(pi, mus))
            second = sum(p * (cv + np.outer(mu, mu)) for p, mu, cv in zip(pi, mus, covs))
            cov = second - np.outer(mean, mean)
            lz, mu_r, cov_r = stats(Pr, er, cr)
            if not (close(lz, total) and close(mu_r, mean) and close(cov_r, cov)):
                raise Violation(
                    "moment-matching-not-preserving",
                    f"at {ip}: mass {lz} vs {total}; mean {mu_r.tolist()} vs {mean.tolist()}; cov {cov_r.tolist()} vs {cov.tolist()}: {self.describe(case)}",
                )
        stt.count("completed")
        stt.count("moment-checked")
        stt.mark_nontrivial(case_hash(case))


PROP = C13()
