"""C16 — pattern dispatch picks a most specific rule, deterministically."""
import itertools
import random
import typing

from hypothesis import strategies as st

from vf.core import Decline, Prop, Violation, case_hash

_cache = {}


def env():
    if _cache:
        return _cache
    from collections import OrderedDict

    import numpy as np

    import funsor
    import funsor.adjoint
    import funsor.approximations
    import funsor.constant
    import funsor.integrate
    import funsor.joint
    import funsor.montecarlo
    import funsor.optimizer
    import funsor.precondition
    import funsor.sum_product
    from funsor import Bint, Real, Reals, Tensor, Variable, ops
    from funsor.cnf import Contraction
    from funsor.delta import Delta
    from funsor.gaussian import Gaussian
    from funsor.interpretations import (
        compress_gaussians_base,
        eager_base,
        lazy_base,
        moment_matching_base,
        normalize_base,
        reflect,
        sequential_base,
    )
    from funsor.optimizer import optimize_base, unfold_base
    from funsor.terms import Binary, Funsor, Lambda, Number, Reduce, Slice, Stack, Subs, Unary
    from funsor.typing import Variadic, deep_type, typing_wrap
    from multipledispatch.variadic import isvariadic

    registries = OrderedDict(
        eager=eager_base.registry, normalize=normalize_base.registry, lazy=lazy_base.registry, sequential=sequential_base.registry,
        moment_matching=moment_matching_base.registry, compress_gaussians=compress_gaussians_base.registry, unfold=unfold_base.registry,
        optimize=optimize_base.registry, adjoint_ops=funsor.adjoint.adjoint_ops,
    )
    # values
    x, y = Variable("x", Real), Variable("y", Reals[2])
    i = Variable("i", Bint[3])
    t = Tensor(np.arange(6.0).reshape(3, 2), OrderedDict(i=Bint[3]))
    ti = Tensor(np.array([0, 1, 2]), OrderedDict(j=Bint[3]), 3)
    n1, n2 = Number(1.5), Number(2, 3)
    g = Gaussian(white_vec=np.zeros(1), prec_sqrt=np.ones((1, 1)), inputs=OrderedDict(x=Real))
    d = Delta("x", Number(0.5))
    with reflect:
        b1 = x + x
        b2 = t * t
        u1 = -x
        r1 = Reduce(ops.add, t, frozenset([i]))
        r2 = Reduce(ops.logaddexp, b2, frozenset([i]))
        c1 = Contraction(ops.add, ops.mul, frozenset([i]), (t, t))
        c2 = Contraction(ops.null, ops.add, frozenset(), (x, n1))
        s1 = Subs(b1, (("x", n1),))
        st1 = Stack("k", (x, n1))
        lam = Lambda(i, t)
        sl = Slice("i", 0, 3, 1, 3)
        mix = Contraction(ops.null, ops.add, frozenset(), (t.sum(), g))
    values = [x, y, i, t, ti, n1, n2, g, d, b1, b2, u1, r1, r2, c1, c2, s1, st1, lam, sl, mix,
              ops.add, ops.mul, ops.logaddexp, ops.neg, ops.null, ops.getitem, ops.SumOp(0, False), "name", 3, 2.5,
              (x, n1), (t, t, t), (), ("x", n1), (("x", n1),), frozenset([i]), frozenset(), frozenset([x, i]), frozenset(["a"]),
              (t, g), (n1, g), ((x,), frozenset([i]))]
    pool = []

    def add(tp):
        if tp not in pool:
            pool.append(tp)

    for v in values:
        add(deep_type(v))
        add(type(v))
    for tp in [object, typing.Any, Funsor, Tensor, Number, Variable, Binary, Unary, Reduce, Contraction, Gaussian, Delta, Subs, tuple, frozenset, str, int,
               typing.Tuple, typing.FrozenSet, typing.Tuple[Funsor, ...], typing.Tuple[Tensor, ...], typing.Tuple[Tensor, Tensor], typing.Tuple[Funsor, Funsor],
               typing.Tuple[Tensor, Gaussian], typing.Tuple[typing.Union[Tensor, Number], Gaussian], typing.Tuple[typing.Union[Tensor, Number], ...],
               typing.FrozenSet[Variable], typing.FrozenSet[Funsor], typing.FrozenSet[str], typing.FrozenSet[typing.Any], typing.Union[Tensor, Number],
               typing.Union[Tensor, Gaussian, Number], typing.Tuple[typing.Any, ...], typing.Tuple[str, Funsor], typing.Tuple[typing.Tuple[str, Funsor], ...],
               Binary[ops.AddOp, Funsor, Funsor], Binary[ops.AssociativeOp, Tensor, Tensor], Binary[ops.Op, Funsor, Funsor], Unary[ops.NegOp, Funsor],
               Reduce[ops.AssociativeOp, Funsor, frozenset], Reduce[ops.AddOp, Tensor, typing.FrozenSet[Variable]], Reduce[ops.AddOp, Tensor, typing.FrozenSet],
               Contraction[ops.AssociativeOp, ops.AssociativeOp, frozenset, tuple], Contraction[ops.NullOp, ops.AddOp, frozenset, typing.Tuple[Tensor, Gaussian]],
               Contraction[typing.Union[ops.LogaddexpOp, ops.NullOp], ops.AddOp, frozenset, typing.Tuple[typing.Union[Tensor, Number], Gaussian]],
               ops.Op, ops.AssociativeOp, ops.AddOp, ops.BinaryOp, ops.UnaryOp, ops.NullOp, ops.LogaddexpOp,
               # unions whose members share an origin, and a subscripted member next to a more general one
               typing.Union[typing.Tuple[Number], typing.Tuple[Number, Number]], typing.Union[typing.Tuple[Tensor, Tensor], typing.Tuple[Funsor, ...]],
               typing.Union[Binary[ops.AddOp, Funsor, Funsor], Binary[ops.Op, Tensor, Tensor]], typing.Union[Binary[ops.AddOp, Tensor, Tensor], Funsor],
               typing.Union[Unary[ops.NegOp, Funsor], Funsor], typing.Union[typing.FrozenSet[Variable], typing.FrozenSet[str]],
               typing.Union[Reduce[ops.AddOp, Tensor, typing.FrozenSet[Variable]], Reduce[ops.AssociativeOp, Funsor, frozenset]],
               typing.Tuple[Number], typing.Tuple[Number, Number], Binary[ops.Op, Tensor, Tensor], Binary[ops.AddOp, Tensor, Tensor]]:
        add(tp)
    # generated parametrisations: every parameter position unconstrained (object / Any), general or specific
    params = [object, typing.Any, Funsor, Number, Variable, Tensor]
    for o in (ops.AddOp, ops.Op):
        for a, b in itertools.product(params, repeat=2):
            add(Binary[o, a, b])
    for a in params:
        add(Unary[ops.NegOp, a])
        add(Unary[object, a])
        add(Reduce[ops.AddOp, a, frozenset])
        add(Reduce[ops.AddOp, a, object])
        add(Subs[a, tuple])
        if a is not object:  # inside typing.Tuple the unconstrained parameter is spelled Any (a bare object is never normalised there)
            add(Contraction[ops.NullOp, ops.AddOp, frozenset, typing.Tuple[a, Gaussian]])
    # registered signature components
    dispatchers = []
    for rname, reg in registries.items():
        for key, disp in reg.registry.items():
            dispatchers.append((rname, key, disp))
            for sig in disp.funcs:
                for comp in sig:
                    if not isvariadic(comp):
                        inner = comp.__args__[0] if hasattr(comp, "__args__") and type(comp).__name__ == "_RuntimeSubclassCheckMeta" and comp.__args__ else comp
                        add(inner)
    _cache.update(values=values, pool=pool, registries=registries, dispatchers=dispatchers, deep_type=deep_type, typing_wrap=typing_wrap, isvariadic=isvariadic, Variadic=Variadic)
    return _cache


def R(a, b):
    """The relation multipledispatch uses: issubclass(typing_wrap(a), typing_wrap(b)).  None = undefined (TypeError)."""
    e = env()
    try:
        return bool(issubclass(e["typing_wrap"](a), e["typing_wrap"](b)))
    except TypeError:
        return None


# ------------------------------------------------------------------ independent structural model
def unwrap(tp):
    if type(tp).__name__ == "_RuntimeSubclassCheckMeta" and getattr(tp, "__args__", None):
        return tp.__args__[0]
    return tp


def origin_args(tp):
    import typing_extensions

    from funsor.typing import GenericTypeMeta

    if isinstance(tp, GenericTypeMeta):
        o = getattr(tp, "__origin__", None)
        return (o if o is not None else tp), tuple(getattr(tp, "__args__", ()) or ())
    o = typing_extensions.get_origin(tp)
    a = typing_extensions.get_args(tp)
    return (o if o is not None else tp), tuple(a or ())


def model_sub(a, b):
    """60-line structural model: nominal MRO, covariant parameters, fixed/variadic tuples, unions, frozensets."""
    from funsor.typing import GenericTypeMeta

    a, b = unwrap(a), unwrap(b)
    if a is object:
        a = typing.Any
    if b is object:
        b = typing.Any
    ao, aa = origin_args(a)
    bo, ba = origin_args(b)
    if ao is typing.Union:
        return all(model_sub(x, b) for x in aa)
    if b is typing.Any:
        return True
    if a is typing.Any:
        return False
    if bo is typing.Union:
        return any(model_sub(a, x) for x in ba)
    if bo in (tuple, typing.Tuple):
        if not (isinstance(ao, type) and issubclass(ao, tuple)):
            return False
        if not ba:
            return True
        if not aa:  # a bare tuple is Tuple[Any, ...]: below a variadic Tuple[Any, ...] only
            return ba[-1] is Ellipsis and ba[0] is typing.Any
        if ba[-1] is Ellipsis:
            if aa[-1] is Ellipsis:
                return model_sub(aa[0], ba[0])
            return all(model_sub(x, ba[0]) for x in aa)
        if aa[-1] is Ellipsis:
            return False
        return len(aa) == len(ba) and all(model_sub(x, y) for x, y in zip(aa, ba))
    if bo in (frozenset, typing.FrozenSet):
        if not (isinstance(ao, type) and issubclass(ao, frozenset)):
            return False
        if not ba:
            return True
        if not aa:
            return ba[0] is typing.Any
        return len(aa) == len(ba) == 1 and model_sub(aa[0], ba[0])
    if isinstance(b, GenericTypeMeta) or isinstance(bo, GenericTypeMeta):
        if not isinstance(ao, type):
            return False
        if not isinstance(a, GenericTypeMeta):
            return issubclass(ao, bo) if isinstance(bo, type) else False
        if not issubclass(ao, bo):
            return False
        if len(ba) != len(aa):
            return len(ba) == 0
        return all(model_sub(x, y) for x, y in zip(aa, ba))
    if isinstance(ao, type) and isinstance(bo, type):
        return issubclass(ao, bo)
    return None


# ------------------------------------------------------------------ signature matching model
def sig_matches(sig, types):
    e = env()
    if sig and e["isvariadic"](sig[-1]):
        fixed, var = sig[:-1], sig[-1]
        if len(types) < len(fixed):
            return False
        if not all(R(t, s) for t, s in zip(types, fixed)):
            return False
        vt = var.variadic_type
        return all(any(R(t, v) for v in vt) for t in types[len(fixed):])
    return len(sig) == len(types) and all(R(t, s) for t, s in zip(types, sig))


def sig_leq(s1, s2):
    """s1 at least as specific as s2 (componentwise; a variadic tail is less specific than fixed positions)."""
    e = env()
    v1 = bool(s1) and e["isvariadic"](s1[-1])
    v2 = bool(s2) and e["isvariadic"](s2[-1])
    if not v1 and not v2:
        return len(s1) == len(s2) and all(R(a, b) for a, b in zip(s1, s2))
    if v2 and not v1:
        fixed = s2[:-1]
        if len(s1) < len(fixed):
            return False
        return all(R(a, b) for a, b in zip(s1, fixed)) and all(any(R(a, v) for v in s2[-1].variadic_type) for a in s1[len(fixed):])
    if v1 and not v2:
        return False
    return len(s1) == len(s2) and all(R(a, b) for a, b in zip(s1[:-1], s2[:-1])) and all(any(R(a, v) for v in s2[-1].variadic_type) for a in s1[-1].variadic_type)


def check_dispatch(disp, types, label):
    """The chosen function is registered under a matching signature that no other matching signature
    with a different function strictly refines; and the choice is stable."""
    types = tuple(types)
    try:
        fn = disp.dispatch(*types)
    except Exception as ex:
        raise Decline("dispatch-raised:" + type(ex).__name__)
    M = [s for s in disp.funcs if sig_matches(s, types)]
    if fn is None:
        if M:
            raise Violation("no-rule-although-patterns-match", f"{label}: {types} matches {M[:3]} but dispatch returned None")
        return 0
    owners = [s for s in M if disp.funcs[s] is fn]
    if not owners:
        raise Violation("rule-does-not-match", f"{label}: dispatch chose {getattr(fn, '__name__', fn)} for {types}, none of its patterns match")
    ok = False
    for s in owners:
        if not any(disp.funcs[s2] is not fn and sig_leq(s2, s) and not sig_leq(s, s2) for s2 in M):
            ok = True
            break
    if not ok:
        better = [s2 for s2 in M if disp.funcs[s2] is not fn and any(sig_leq(s2, s) and not sig_leq(s, s2) for s in owners)]
        raise Violation("not-most-specific", f"{label}: chose {getattr(fn, '__name__', fn)} for {types} although {better[:2]} is strictly more specific")
    # determinism: cache cleared, reordered
    disp._cache.clear()
    fn2 = disp.dispatch(*types)
    disp.reorder()
    fn3 = disp.dispatch(*types)
    if fn2 is not fn or fn3 is not fn:
        raise Violation("dispatch-not-deterministic", f"{label}: {types}: {fn} / {fn2} / {fn3}")
    return len(M)


class C16(Prop):
    id = "C16"
    rule = (
        "G2: a pool of ~150 parametric types (all registered pattern components, deep_type of 40 sample values, Tuple / variadic Tuple / Union / "
        "FrozenSet / Any forms): reflexivity on all, transitivity on all triples (sampled in the quick tier), agreement of the relation with an "
        "independent 60-line structural model on all pairs, deep_isinstance(v,T) == relation(deep_type(v),T), and every value is an instance of its "
        "deep_type and of every one-step generalisation of it. G1: for every dispatcher of the eight dispatched interpretations and adjoint_ops, "
        "type tuples synthesised from every registered signature (its own components and more specific pool types per position, plus deep types of "
        "sample values): the chosen function must belong to a matching signature not strictly refined by another matching signature with a different "
        "function, and be unchanged after cache clearing / reorder(), in fresh dispatchers populated in shuffled order, and in generated "
        "register/dispatch histories on fresh KeyedRegistries through origin and subscripted keys; non-trivial = >=2 matching signatures (G1), a "
        "parametrised side (G2)"
    )
    assumptions = (
        "the matching relation is issubclass(typing_wrap(a), typing_wrap(b)) - the one multipledispatch evaluates - validated against the structural model",
    )
    cases = {"quick": 600, "thorough": 20000}

    # ---- generated part: register/dispatch histories on fresh registries
    def strategy(self, tier):
        return st.integers(0, 2**40).map(lambda s: {"seed": s})

    def describe(self, case):
        return str(case)

    def check_variadic_history(self, case, stt):
        """Signatures over wrapped (non-funsor) types with variadic tails on a fresh PartialDispatcher: the rule that runs
        accepts the arguments and no other accepting rule has a strictly smaller set of accepted argument tuples."""
        from funsor import Bint, ops
        from funsor.registry import PartialDispatcher

        r = random.Random(case["seed"] * 7 + 1)
        Op = ops.Op
        candidates = [(str, int), (str, [int]), (str, [object]), (str, tuple), (str, [tuple]), (str, Op), (str, [Op]), (int, int), (int, [int]), (str, int, int), (str, [str])]
        probes = [("a", True), ("a", 1), ("a", 1, 2), ("a",), ("a", (1, 2)), ("a", "b"), (1, 2), (1, True), (True, True), ("a", ops.add), ("a", ops.add, ops.mul), ("a", True, False), ("a", 1, True), ("a", (1,), (2, 3))]

        def accepts(sig, args):
            fixed = [t for t in sig if not isinstance(t, list)]
            var = sig[-1][0] if sig and isinstance(sig[-1], list) else None
            if var is None:
                return len(args) == len(fixed) and all(isinstance(a, t) for a, t in zip(args, fixed))
            return len(args) >= len(fixed) and all(isinstance(a, t) for a, t in zip(args, fixed)) and all(isinstance(a, var) for a in args[len(fixed):])

        chosen = r.sample(candidates, r.randint(2, 6))
        rules = {}
        if r.random() < 0.5:
            # a dispatcher with a default rule (registered for any number of arguments of any type)
            def default_rule(*args):
                return "default"

            disp = PartialDispatcher(default=default_rule, name="verif")
            rules[disp.default] = ([object],)
            chosen = chosen + [([object],)]
        else:
            disp = PartialDispatcher(name="verif")
        for k, sig in enumerate(chosen):
            if sig == ([object],):
                continue

            def fn(*args, _sig=sig):
                return _sig

            fn.__name__ = f"rule_{k}"
            disp.register(*sig)(fn)
            rules[fn] = sig
        hard = False
        for _ in range(r.randint(4, 10)):
            if r.random() < 0.15:
                disp._cache.clear()
                continue
            args = r.choice(probes)
            M = [f for f, sig in rules.items() if accepts(sig, args)]
            try:
                got = disp.partial_call(*args)
            except NotImplementedError:
                got = None
            except Exception as ex:  # ambiguity warnings are not errors; anything else is a decline
                raise Decline("variadic-dispatch-raised:" + type(ex).__name__)
            if not M:
                if got is not None and got in rules:
                    raise Violation("variadic:rule-without-match", f"{rules[got]} ran for {args!r} which it does not accept; registered {chosen}")
                continue
            if got is None or got not in rules:
                raise Violation("variadic:no-rule-although-patterns-match", f"{args!r}: {[rules[f] for f in M]} accept, dispatch found none; registered {chosen}")
            if got not in M:
                raise Violation("variadic:rule-does-not-match", f"{rules[got]} ran for {args!r}; accepting rules {[rules[f] for f in M]}")
            acc = {f: frozenset(i for i, p in enumerate(probes) if accepts(rules[f], p)) for f in M}
            better = [rules[f] for f in M if acc[f] < acc[got]]
            if len(M) >= 2:
                hard = True
            if better:
                raise Violation("variadic:not-most-specific", f"{rules[got]} ran for {args!r} although {better} accept(s) strictly fewer argument tuples; registered (in this order) {chosen}")
        stt.count("variadic-history")
        if hard:
            stt.mark_nontrivial(case_hash(case))

    def check_deep_types(self, case, stt):
        """(a) deep_type is a function of the structure of types only: values that compare (and hash) equal but have other
        element types get their own deep type, whatever was typed before in the process.  (b) a term's class is its
        origin subscripted by the deep types of its constructor arguments, also when the term was built in two steps
        under different interpretations (child under reflect / lazy, binder or operation under eager)."""
        import funsor.interpretations as I
        from funsor import ops
        from funsor.terms import Funsor
        from funsor.typing import deep_type, get_origin
        from vf.build import build
        from vf.gen import Opts, SeedSource, gen_expr
        from vf.lang import typeof

        r = random.Random(case["seed"] * 13 + 5)

        def expected(o):
            if isinstance(o, tuple):
                return typing.Tuple[tuple(expected(e_) for e_ in o)] if o else typing.Tuple
            if isinstance(o, frozenset):
                if not o:
                    return typing.FrozenSet
                ts = {expected(e_) for e_ in o}
                if len(ts) == 1:
                    return typing.FrozenSet[ts.pop()]
                # elements of one collection type with different deep types: the common origin
                kinds = {type(e_) for e_ in o}
                return typing.FrozenSet[kinds.pop()] if len(kinds) == 1 and kinds <= {tuple, frozenset} else None
            return type(o)

        pool = [(3, 4), (3.0, 4.0), (True, 4), (1, 0), (True, False), (1.0, 0), ((1,), 2), ((True,), 2.0), ((1.0,), 2), ("a", 1), ("a", True), ("a", 1.0),
                frozenset([1]), frozenset([1.0]), frozenset([True]), (frozenset([1]), 1), (frozenset([True]), 1.0), (), ((),), (0,), (False,), (0.0,),
                frozenset([(1, 2), (3, 4.0)]), frozenset([(1, 2), (3, 4)]), frozenset([(1,), (1, 2)]), frozenset([("a", 1), ("b", 2.0)]), frozenset([frozenset([1]), frozenset(["a"])]),
                frozenset([frozenset([1]), frozenset([2])]), (frozenset([(1, 2), (3.0, 4)]),), frozenset([("a", 1), ("b", 2)])]
        for _ in range(r.randint(6, 16)):
            o = r.choice(pool)
            want = expected(o)
            if want is None:
                continue
            got = deep_type(o)
            if got != want:
                raise Violation("deep_type-depends-on-history", f"deep_type({o!r}) = {got}, expected {want} (values that compare equal but have other element types were typed earlier in this process)")
        stt.count("deep_type-history")
        # (b)
        try:
            node = gen_expr(SeedSource(case["seed"]), Opts(reals=True, max_depth=2, max_names=3), ("real", ()))
            inputs = typeof(node)[0]
            with getattr(I, r.choice(["reflect", "lazy", "reflect"])):
                child = build(node)
        except Exception:
            raise Decline("could-not-build-a-child-term")
        ints = sorted(n for n, d in inputs.items() if d[0] != "real" and n in getattr(child, "inputs", {}))
        results = [child]
        try:
            if ints:
                results.append(child.reduce(r.choice([ops.add, ops.logaddexp, ops.max]), ints[0]))
                results.append(child(**{ints[-1]: 0}))
            results.append(-child)
            results.append(child + 1.0)
            with I.lazy:
                results.append(child * 2.0)
        except Exception:
            stt.count("operation-on-the-child-raised")
        seen = set()

        def walk_terms(t):
            if id(t) in seen:
                return
            seen.add(id(t))
            if isinstance(t, Funsor):
                args = getattr(type(t), "__args__", None)
                if args:
                    want = tuple(deep_type(a) for a in t._ast_values)
                    if tuple(args) != want:
                        raise Violation("term-class-does-not-match-its-arguments", f"{get_origin(type(t)).__name__}: class parameters {args}, deep types of the arguments {want}")
                for a in t._ast_values:
                    walk_terms(a)
            elif isinstance(t, (tuple, frozenset)):
                for a in t:
                    walk_terms(a)

        for t in results:
            walk_terms(t)
        stt.count("term-class-invariant")
        stt.mark_nontrivial(case_hash(case))

    def check(self, case, stt):
        from funsor.registry import KeyedRegistry
        from funsor.terms import Binary, Funsor, Number, Reduce, Unary, Variable

        e = env()
        if "pair" in case or "entry" in case or "triple" in case:
            return self.replay_entry(case)
        if case["seed"] % 4 == 0:
            return self.check_variadic_history(case, stt)
        if case["seed"] % 4 == 1:
            return self.check_deep_types(case, stt)
        r = random.Random(case["seed"])
        default = lambda *args: None  # noqa: E731
        reg = KeyedRegistry(default=default)
        values = e["values"]
        funsors = [v for v in values if isinstance(v, Funsor)]
        # candidate patterns for Binary / Unary / Reduce keys
        from funsor import ops
        from funsor.tensor import Tensor

        patterns = {
            Binary: [(ops.Op, Funsor, Funsor), (ops.AssociativeOp, Funsor, Funsor), (ops.AddOp, Funsor, Funsor), (ops.AddOp, Variable, Variable), (ops.Op, Tensor, Tensor),
                     (ops.AssociativeOp, Tensor, Funsor), (ops.Op, Funsor, Tensor), (ops.AddOp, Tensor, Tensor), (ops.MulOp, Tensor, Tensor), (ops.Op, Number, Funsor)],
            Unary: [(ops.Op, Funsor), (ops.NegOp, Funsor), (ops.Op, Variable), (ops.NegOp, Variable), (ops.Op, Tensor)],
            Reduce: [(ops.AssociativeOp, Funsor, frozenset), (ops.AddOp, Tensor, frozenset), (ops.AddOp, Funsor, typing.FrozenSet[Variable]), (ops.AssociativeOp, Tensor, typing.FrozenSet)],
        }
        terms = [v for v in funsors if type(v).__origin__ in patterns] if True else []
        model = {k: {} for k in patterns}  # key -> {signature: fn}
        nsteps = r.randint(3, 12)
        multi = False
        for step in range(nsteps):
            act = r.choice(["register", "dispatch", "dispatch", "dispatch_sub", "clear"])
            if act == "register":
                key = r.choice(list(patterns))
                sig = r.choice(patterns[key])
                if sig in model[key]:
                    continue

                def fn(*args, _tag=(key.__name__, sig)):
                    return _tag

                fn.__name__ = f"rule_{key.__name__}_{len(model[key])}"
                via = key if r.random() < 0.5 else r.choice([type(t) for t in terms if type(t).__origin__ is key] or [key])
                reg.register(via, *sig)(fn)
                model[key][tuple(e["typing_wrap"](s) for s in sig)] = fn
            elif act == "clear":
                for disp in reg.registry.values():
                    disp._cache.clear()
            else:
                term = r.choice(terms)
                key = type(term).__origin__
                via = key if act == "dispatch" else type(term)
                args = term._ast_values
                got = reg.dispatch(via, *args)
                types = tuple(e["deep_type"](a) for a in args)
                M = [s for s in model[key] if sig_matches(s, types)]
                if len(M) >= 2:
                    multi = True
                if not M:
                    if got is not default and getattr(got, "default", None) is not default and got is not None and getattr(got, "__name__", "").startswith("rule_"):
                        raise Violation("history:rule-without-match", f"step {step}: {key.__name__} via {via}: got {got.__name__} but no registered pattern matches: {case}")
                    continue
                if not getattr(got, "__name__", "").startswith("rule_"):
                    raise Violation("history:stale-default", f"step {step}: dispatch of {key.__name__} via {'subscripted' if via is not key else 'origin'} key returned the default although {len(M)} registered pattern(s) match: {case}")
                owners = [s for s in M if model[key][s] is got]
                if not owners:
                    raise Violation("history:rule-does-not-match", f"step {step}: {got.__name__}: {case}")
                if all(any(model[key][s2] is not got and sig_leq(s2, s) and not sig_leq(s, s2) for s2 in M) for s in owners):
                    raise Violation("history:not-most-specific", f"step {step}: {got.__name__} for {types}: {case}")
                other = reg.dispatch(key if via is not key else type(term), *args)
                if other is not got:
                    raise Violation("history:key-form-changes-result", f"step {step}: origin key and subscripted key disagree ({getattr(got, '__name__', got)} vs {getattr(other, '__name__', other)}): {case}")
        stt.count("history")
        if multi:
            stt.mark_nontrivial(case_hash(case))

    def replay_entry(self, case):
        e = env()
        pool = e["pool"]
        def find(k, idx):
            # pool entries are addressed by their repr (stable when the pool grows), falling back to the index
            reprs = case.get("reprs")
            if reprs:
                for t in pool:
                    if repr(t) == reprs[k]:
                        return t
            return pool[idx]

        if "pair" in case:
            i, j = case["pair"]
            a, b = find(0, i), find(1, j)
            if i == j and R(a, a) is False:
                raise Violation("not-reflexive", f"{a!r} is not a subtype of itself")
            self.check_pair(a, b)
        if "triple" in case:
            i, j, l = case["triple"]
            a, b, c = find(0, i), find(1, j), find(2, l)
            if R(a, b) and R(b, c) and R(a, c) is False:
                raise Violation("not-transitive", f"{a!r} <= {b!r} <= {c!r} but not {a!r} <= {c!r}")
        return

    def check_pair(self, a, b):
        r = R(a, b)
        m = model_sub(a, b)
        if r is not None and m is not None and r != m:
            raise Violation("relation-vs-structural-model", f"issubclass(wrap({a!r}), wrap({b!r})) = {r} but the structural model says {m}")

    # ---- enumerated part
    def extra(self, tier, shard, nshards, stt, seed):
        e = env()
        pool, values = e["pool"], e["values"]
        n = len(pool)
        stt.notes["max_pool_size"] = n
        rng = random.Random(seed * 7919 + 13)

        def viol(bucket, msg, case):
            if not any(v["bucket"] == bucket for v in stt.violations):
                stt.violations.append(dict(bucket=bucket, message=msg, case=case))

        # G2 reflexivity + model agreement on all pairs
        k = 0
        for i, a in enumerate(pool):
            if R(a, a) is False:
                viol("not-reflexive", f"{a!r} is not a subtype of itself", {"pair": [i, i], "reprs": [repr(a), repr(a)]})
            for j, b in enumerate(pool):
                k += 1
                if k % nshards != shard:
                    continue
                stt.evaluations += 1
                try:
                    self.check_pair(a, b)
                except Violation as v:
                    viol(v.bucket, v.message, {"pair": [i, j], "reprs": [repr(a), repr(b)]})
                    continue
                if origin_args(a)[1] or origin_args(b)[1]:
                    stt.mark_nontrivial(f"pair:{i}:{j}")
        # transitivity
        rel = {}
        for i, a in enumerate(pool):
            for j, b in enumerate(pool):
                rel[i, j] = R(a, b)
        triples = itertools.product(range(n), repeat=3)
        cnt = 0
        for (i, j, l) in triples:
            cnt += 1
            if cnt % nshards != shard:
                continue
            stt.evaluations += 1
            if rel[i, j] and rel[j, l] and rel[i, l] is False:
                viol("not-transitive", f"{pool[i]!r} <= {pool[j]!r} <= {pool[l]!r} but not {pool[i]!r} <= {pool[l]!r}", {"triple": [i, j, l], "reprs": [repr(pool[i]), repr(pool[j]), repr(pool[l])]})
        # instance membership
        from funsor.typing import deep_isinstance

        for vi, v in enumerate(values):
            if vi % nshards != shard:
                continue
            dt = e["deep_type"](v)
            stt.evaluations += 1
            if not deep_isinstance(v, dt):
                viol("value-not-instance-of-own-type", f"{v!r} is not an instance of deep_type {dt!r}", {"value": vi})
            for T in pool:
                r1 = R(dt, T)
                try:
                    r2 = bool(deep_isinstance(v, T))
                except Exception:
                    continue
                if r1 is not None and r1 != r2:
                    viol("isinstance-vs-subclass", f"deep_isinstance({v!r}, {T!r}) = {r2} but relation(deep_type, T) = {r1}", {"value": vi})
            for gen in generalisations(dt):
                stt.evaluations += 1
                if not deep_isinstance(v, gen):
                    viol("value-not-instance-of-generalisation", f"{v!r}: deep_type {dt!r} but not an instance of its generalisation {gen!r}", {"value": vi})
                stt.mark_nontrivial(f"gen:{vi}:{gen!r}")
        # G1 dispatch
        dcount = 0
        for rname, key, disp in e["dispatchers"]:
            for sig in list(disp.funcs):
                dcount += 1
                if dcount % nshards != shard:
                    continue
                if sig and e["isvariadic"](sig[-1]):
                    base = [unwrap(c) for c in sig[:-1]] + [unwrap(sig[-1].variadic_type[0])] * rng.randint(0, 2)
                else:
                    base = [unwrap(c) for c in sig]
                variants = [tuple(base)]
                for pos in range(len(base)):
                    subs = [t for t in pool if R(t, base[pos]) and t is not base[pos]]
                    rng.shuffle(subs)
                    for t in subs[: (3 if tier == "quick" else 12)]:
                        variants.append(tuple(base[:pos] + [t] + base[pos + 1:]))
                for types in variants:
                    stt.evaluations += 1
                    try:
                        m = check_dispatch(disp, types, f"{rname}[{getattr(key, '__name__', key)}]")
                    except Decline as d:
                        stt.decline(d.bucket)
                        continue
                    except Violation as v:
                        viol(v.bucket + "|" + rname, v.message, {"dispatch": [rname, getattr(key, "__name__", str(key)), [repr(t) for t in types]]})
                        continue
                    stt.count("dispatch-checked")
                    if m >= 2:
                        stt.mark_nontrivial(f"disp:{rname}:{key}:{types!r}")
            # fresh dispatcher populated in shuffled registration order
            if dcount % nshards == shard:
                from funsor.registry import PartialDispatcher

                items = list(disp.funcs.items())
                for trial in range(2 if tier == "quick" else 10):
                    rng.shuffle(items)
                    fresh = PartialDispatcher(name="vf")
                    for sig, fn in items:
                        fresh.add(tuple(unwrap(c) if not e["isvariadic"](c) else e["Variadic"][tuple(unwrap(x) for x in c.variadic_type)] for c in sig), fn)
                    for sig in list(disp.funcs)[:20]:
                        if sig and e["isvariadic"](sig[-1]):
                            continue
                        types = tuple(unwrap(c) for c in sig)
                        try:
                            f1, f2 = disp.dispatch(*types), fresh.dispatch(*types)
                        except Exception:
                            continue
                        stt.evaluations += 1
                        if f1 is not f2:
                            viol("registration-order-changes-dispatch|" + rname, f"{rname}[{getattr(key, '__name__', key)}] {types}: {getattr(f1, '__name__', f1)} vs {getattr(f2, '__name__', f2)} after shuffled registration", {"dispatch": [rname, str(key)]})
        stt.exhaustive = tier == "thorough"


def generalisations(tp):
    """One-step generalisations of a (deep) type."""
    from funsor.typing import GenericTypeMeta

    out = []
    o, args = origin_args(tp)
    if o is not tp:
        out.append(o)
    if isinstance(tp, GenericTypeMeta) and args:
        for i, a in enumerate(args):
            for ga in generalisations(a) + [typing.Any]:
                try:
                    out.append(o[tuple(args[:i]) + (ga,) + tuple(args[i + 1:])])
                except Exception:
                    pass
    elif o in (tuple, typing.Tuple) and args and args[-1] is not Ellipsis:
        for i, a in enumerate(args):
            for ga in generalisations(a) + [typing.Any]:
                out.append(typing.Tuple[tuple(args[:i]) + (ga,) + tuple(args[i + 1:])])
        if len(set(args)) == 1:
            out.append(typing.Tuple[args[0], ...])
        out.append(typing.Tuple[typing.Any, ...])
    elif o in (frozenset, typing.FrozenSet) and args:
        for ga in generalisations(args[0]) + [typing.Any]:
            out.append(typing.FrozenSet[ga])
    elif isinstance(tp, type) and tp is not object:
        for b in tp.__mro__[1:3]:
            out.append(b)
    return out


PROP = C16()
