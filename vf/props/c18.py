"""C18 — compiled and traced programs compute what interpretation computes."""
import pickle

import numpy as np
from hypothesis import strategies as st

from vf.core import robust_gen, Decline, Prop, Violation, case_hash, innermost_funsor_frame
from vf.gen import Opts, SeedSource, gen_expr
from vf.lang import Oracle, OutOfDomain, ast_shrinks, close, parse_index, show, typeof, walk
from vf.props.c01 import ast_signature

OPTS = Opts(
    compilable=True, reals=True, max_depth=3,
    ops_unary=("neg", "abs", "exp", "tanh", "sigmoid", "log1p", "sqrt"),
    ops_binary=("add", "sub", "mul", "truediv", "max", "min", "pow"),
)
MODES = ["reflect", "lazy", "normalize"]


def gen_case(seed):
    src = SeedSource(seed)
    from vf.gen import DOMS, G

    n = src.pick([1, 1, 1, 2, 3, 3])
    g = G(src, OPTS)  # one name registry for all parts (fresh names must not clash between parts)
    parts = []
    for _ in range(n):
        d = g.pick(DOMS)
        depth = g.rint((1, OPTS.max_depth))
        parts.append(g.expr(d, depth, set(g.sizes)))
    if n >= 2 and src.pick([0, 0, 1]) == 1:
        # the same (non-leaf) expression at two positions of the tuple, next to a different one
        i, j = src.pick([(0, 1), (1, 0), (0, n - 1), (n - 1, 0)])
        if i != j:
            parts[j] = parts[i]
    parts = tuple(parts)
    return {"parts": parts, "mode": src.pick(MODES), "salt": src.pick(range(50))}


SC_OPS = ["add", "mul", "sub", "pow", "max", "min", "truediv"]
SC_LITS = [(1, "int"), (1.0, "float"), (2, "int"), (2.0, "float"), (3, "int"), (3.0, "float"), (0.5, "float")]


def gen_scalar_case(seed):
    """A function of funsor.ops over an integer array n and a float array x with Python int and float literals (equal
    values of different types included): the traced / printed / unpickled program must return what the function returns,
    including the dtype."""
    src = SeedSource(seed)

    def expr(depth):
        if depth == 0 or src.pick([0, 0, 1]) == 1:
            r = src.pick(range(10))
            if r < 3:
                return ("in", "n")
            if r < 5:
                return ("in", "x")
            v, t = src.pick(SC_LITS)
            return ("lit", v, t)
        return ("op", src.pick(SC_OPS), expr(depth - 1), expr(depth - 1))

    e = ("op", src.pick(SC_OPS), expr(2), expr(2))
    return {"scalars": e, "salt": src.pick(range(50)), "parts": (), "mode": "reflect"}


def show_scalar(e):
    if e[0] == "in":
        return e[1]
    if e[0] == "lit":
        return repr(e[1])
    return f"{e[1]}({show_scalar(e[2])}, {show_scalar(e[3])})"


def bindings(inputs, salt):
    out = {}
    for n, d in sorted(inputs.items()):
        size = int(np.prod(d[1])) if d[1] else 1
        h = sum(ord(c) for c in n) * 7 + salt
        if d[0] == "real":
            vals = [0.25 * (1 + ((h + 3 * i * i + 5 * i) % 8)) for i in range(size)]
            out[n] = np.asarray(vals, dtype=float).reshape(d[1])
        else:
            out[n] = np.asarray((h + 1) % d[0])
    return out


def eval_ops(node, env):
    """The same expression as a function of funsor.ops on raw arrays (for trace_function)."""
    import funsor.ops as ops
    from vf.build import BINARY, UNARY

    k = node[0]
    E = lambda n: eval_ops(n, env)  # noqa: E731
    if k == "num":
        return float(node[1]) if node[2] == "real" else int(node[1])
    if k == "ten":
        dt = float if node[3] == "real" else np.int64
        return np.asarray(node[4], dtype=dt).reshape(tuple(node[2]))
    if k == "var":
        return env[node[1]]
    if k == "un":
        return UNARY[node[1]](E(node[2]))
    if k == "unp":
        op, params, x = node[1], node[2], E(node[3])
        if op == "reshape":
            return ops.reshape(x, tuple(params))
        if op == "getslice":
            idx = parse_index(params, None)
            return ops.getslice(x, idx if len(idx) != 1 else idx[0])
        axis, keepdims = params
        ax = tuple(axis) if isinstance(axis, (tuple, list)) else axis
        name = {"sum": "sum", "prod": "prod", "amax": "amax", "amin": "amin", "logsumexp": "logsumexp", "mean": "mean", "std": "std", "var": "var", "all": "all", "any": "any"}[op]
        if name in ("std", "var"):
            return getattr(ops, name)(x, ax, 0, bool(keepdims))
        return getattr(ops, name)(x, ax, bool(keepdims))
    if k == "bin":
        return BINARY[node[1]](E(node[2]), E(node[3]))
    if k == "getitem":
        return ops.GetitemOp(node[1])(E(node[2]), E(node[3]))
    raise NotImplementedError(k)


class C18(Prop):
    id = "C18"
    rule = (
        "1-3 expressions of the compiler fragment (pointwise unary, binary incl. the non-commutative sub truediv pow matmul getitem, output "
        "reductions with axis/keepdims, reshape, getslice, shared subexpressions, scalar and array constants, real inputs of shapes ()...(2,2) "
        "and bounded-integer index inputs), wrapped in a Tuple when several, built under reflect / lazy / normalize (Contraction without "
        "reduction); compile_funsor(e)(**data), the program after a pickle round trip, exec of as_code() (when the printed source runs) and "
        "trace_function of the same expression written with funsor.ops must all equal the reference evaluator on the bindings; missing or extra "
        "kwargs must raise; non-trivial = >=1 non-commutative op with distinct operands and >=1 node used twice"
    )
    assumptions = (
        "reference evaluator vf/lang.py on the same bindings; printed source that does not execute (array constants printed with str) is a decline",
    )
    cases = {"quick": 4000, "thorough": 80000}

    def strategy(self, tier):
        main = st.integers(0, 2**40).map(robust_gen(gen_case))
        return st.one_of(main, main, main, main, st.integers(0, 2**40).map(gen_scalar_case))

    def describe(self, case):
        if "scalars" in case:
            return "[traced function of ops] " + show_scalar(case["scalars"])
        return f"[{case['mode']}] (" + ", ".join(show(p) for p in case["parts"]) + ")"

    def signature(self, case):
        if "scalars" in case:
            return "scalars"
        return case["mode"] + "|" + "+".join(sorted({ast_signature(p) for p in case["parts"]}))[:200]

    def check_scalars(self, case, stt):
        import pickle

        import funsor.ops as ops
        from funsor.ops.tracer import trace_function
        from vf.build import BINARY

        e = case["scalars"]

        def ev(t, env):
            if t[0] == "in":
                return env[t[1]]
            if t[0] == "lit":
                return int(t[1]) if t[2] == "int" else float(t[1])
            return BINARY[t[1]](ev(t[2], env), ev(t[3], env))

        def walk_(t):
            yield t
            if t[0] == "op":
                yield from walk_(t[2])
                yield from walk_(t[3])

        used = sorted({t[1] for t in walk_(e) if t[0] == "in"})
        if not used:
            raise Decline("no array input")
        if e[2][0] != "in" and e[3][0] != "in" and not any(t[0] == "op" and (t[2][0] == "in" or t[3][0] == "in") for t in walk_(e)):
            raise Decline("no op applied to an array")

        def data(salt):
            return {"n": np.asarray([1 + (salt + 3 * i) % 5 for i in range(3)], dtype=np.int64), "x": np.asarray([0.25 * (1 + (salt + i) % 7) for i in range(3)])}

        fn = lambda **env: ev(e, env)  # noqa: E731
        d0 = {k: v for k, v in data(case["salt"]).items() if k in used}
        d1 = {k: v for k, v in data(case["salt"] + 11).items() if k in used}
        with np.errstate(all="ignore"):
            try:
                want0, want1 = fn(**d0), fn(**d1)
            except Exception as ex:
                raise Decline("function-raised:" + type(ex).__name__)
            if not isinstance(want0, np.ndarray):
                raise Decline("function returns a scalar")
            try:
                prog = trace_function(fn, dict(d0))
            except Exception as ex:
                raise Decline("trace-raised:" + type(ex).__name__)
            variants = [("traced", prog)]
            # the same function with an op that fails and is caught before the computation (a fallback pattern): what the
            # function computes is unchanged, so it must trace as before and to a program with the same values
            first_ = d0[used[0]]

            def guarded(**env):
                try:
                    ops.matmul(env[used[0]], np.ones((first_.shape[0] + 1, 2)))
                except Exception:  # noqa: BLE001
                    pass
                return ev(e, env)

            try:
                variants.append(("traced-after-a-caught-op-error", trace_function(guarded, dict(d0))))
            except Exception as ex:
                raise Violation("traced:tracing-fails-after-a-caught-op-error", f"{type(ex).__name__}: {ex}: the function traces without the caught failing op: {self.describe(case)}")
            try:
                variants.append(("unpickled", pickle.loads(pickle.dumps(prog))))
            except Exception as ex:
                raise Violation("pickle-round-trip-failed", f"{type(ex).__name__}: {ex}: {self.describe(case)}")
            try:
                env_ = {}
                exec(prog.as_code(name="printed"), None, env_)
                variants.append(("printed", env_["printed"]))
            except Exception:
                stt.decline("printed-source-does-not-run")
            for label, f in variants:
                for d, want in ((d1, want1), (d0, want0)):
                    try:
                        got = f(**d)
                    except Exception as ex:
                        raise Violation("traced:raises-where-the-function-returns", f"{label}: {type(ex).__name__}: {ex}: {self.describe(case)}")
                    got, want = np.asarray(got), np.asarray(want)
                    if got.shape != want.shape or got.dtype.kind != want.dtype.kind or not np.allclose(got.astype(float), want.astype(float), rtol=1e-12, atol=0, equal_nan=True):
                        raise Violation("traced:differs-from-the-function", f"{label} program gives {got.tolist()} ({got.dtype}), the function {want.tolist()} ({want.dtype}) for {self.describe(case)}")
        stt.count("scalar-literal-function-checked")
        lits = {(t[1], t[2]) for t in walk_(e) if t[0] == "lit"}
        if any((float(v), "int") in {(float(a), b) for a, b in lits} and (float(v), "float") in {(float(a), b) for a, b in lits} for v, _ in lits):
            stt.mark_nontrivial(case_hash(case))

    def shrink_candidates(self, case):
        if "scalars" in case:
            e = case["scalars"]
            if e[0] == "op":
                for sub in (e[2], e[3]):
                    if sub[0] == "op":
                        yield dict(case, scalars=sub)
            return
        parts = tuple(case["parts"])
        if len(parts) > 1:
            for i in range(len(parts)):
                yield dict(case, parts=parts[:i] + parts[i + 1 :])
        for i, p in enumerate(parts):
            for c in ast_shrinks(p):
                yield dict(case, parts=parts[:i] + (c,) + parts[i + 1 :])
        if case["mode"] != "reflect":
            yield dict(case, mode="reflect")

    def check(self, case, stt):
        import funsor.interpretations as I
        from funsor.compiler import compile_funsor
        from funsor.ops.tracer import trace_function
        from funsor.terms import Tuple
        from vf.build import build

        if "scalars" in case:
            return self.check_scalars(case, stt)
        parts, mode = tuple(case["parts"]), case["mode"]
        stt.count("mode:" + mode)
        from vf.lang import walk as _walk

        if any(n[0] == "ten" and n[1] for p in parts for n in _walk(p)):
            # the compiler fragment has constants without named inputs only (a constant's batch dimensions are not
            # substituted by the program): such an expression is outside the domain
            raise Decline("constant-with-named-inputs(outside the compiler fragment)")
        inputs = {}
        for p in parts:
            for n, d in typeof(p)[0].items():
                inputs[n] = d
        data = bindings(inputs, case["salt"])
        orc = Oracle()
        try:
            want = [orc.ev(p, {n: (int(v) if inputs[n][0] != "real" else v) for n, v in data.items()}) for p in parts]
        except OutOfDomain:
            raise Decline("oracle-out-of-domain")
        if any(np.isnan(np.asarray(w, dtype=float)).any() or np.isinf(np.asarray(w, dtype=float)).any() for w in want):
            raise Decline("oracle-nan-or-overflow")
        try:
            with getattr(I, mode):
                fs = [build(p) for p in parts]
                e = fs[0] if len(fs) == 1 else Tuple(tuple(fs))
        except Exception as ex:
            raise Decline("build-raised:" + innermost_funsor_frame(ex))
        try:
            prog = compile_funsor(e)
        except NotImplementedError as ex:
            raise Decline("compiler-declines:" + str(ex)[:30])
        except Exception as ex:
            raise Decline("compile-raised:" + innermost_funsor_frame(ex))
        kw = {n: data[n] for n in e.inputs}

        def compare(got, what):
            got = got if len(parts) > 1 else (got,)
            if len(got) != len(want):
                raise Violation(what + ":arity", f"{len(got)} results for {len(want)} expressions: {self.describe(case)}")
            for g, w, p in zip(got, want, parts):
                if not close(np.asarray(g, dtype=float), np.asarray(w, dtype=float)):
                    raise Violation(what + ":wrong-value", f"{np.asarray(g).tolist()} vs reference {np.asarray(w).tolist()} for {show(p)} with {dict((k_, v.tolist()) for k_, v in kw.items())}: {self.describe(case)}")

        try:
            got = prog(**kw)
        except Exception as ex:
            # the compiler accepted the expression: a program that cannot run does not "return the same value as
            # substituting those arrays into the expression" - unless that substitution cannot be evaluated either
            # (e.g. normalize turned x / n into x * reciprocal(n) and reciprocal of an integer array raises)
            from funsor.tensor import Tensor
            from funsor.terms import Number

            try:
                subs = {n: Tensor(np.asarray(v), dtype=(inputs[n][0] if inputs[n][0] != "real" else "real")) for n, v in kw.items()}
                direct = [f(**{n: v for n, v in subs.items() if n in f.inputs}) for f in fs]
                evaluated = all(isinstance(d, (Tensor, Number)) for d in direct)
            except Exception:
                raise Decline("expression-itself-raises-at-the-binding")
            if not evaluated:
                raise Decline("expression-stays-lazy-at-the-binding")
            raise Violation("compiled-program-raised", f"{type(ex).__name__}: {ex}: {self.describe(case)}")
        compare(got, "compiled")
        # pickle round trip
        try:
            prog2 = pickle.loads(pickle.dumps(prog))
            compare(prog2(**kw), "pickled")
        except (Violation, MemoryError, RecursionError):
            raise
        except Exception as ex:
            raise Violation("pickle-round-trip-failed", f"{type(ex).__name__}: {ex}: {self.describe(case)}")
        # printed source
        try:
            code = prog.as_code("vfprog")
            ns = {}
            exec(code, ns)
            src_fn = ns["vfprog"]
            runnable = True
        except Exception:
            runnable = False
            stt.count("source-not-executable")
        if runnable:
            try:
                g = src_fn(**kw)
            except Exception:
                g = None
                stt.count("source-raised-at-run")
            if g is not None:
                stt.count("source-executed")
                compare(g, "printed-source")
        # kwargs discipline
        if kw:
            missing = dict(kw)
            missing.pop(sorted(kw)[0])
            try:
                prog(**missing)
                raise Violation("missing-input-accepted", f"program ran without {sorted(kw)[0]}: {self.describe(case)}")
            except Violation:
                raise
            except Exception:
                pass
        try:
            prog(**dict(kw, zz_extra=np.asarray(1.0)))
            raise Violation("unexpected-input-accepted", f"program accepted an unknown kwarg: {self.describe(case)}")
        except Violation:
            raise
        except Exception:
            pass
        if len(kw) >= 2:
            # a missing input that is not the first one (the earlier inputs have been consumed when the call fails)
            missing = dict(kw)
            missing.pop(sorted(kw)[-1])
            try:
                prog(**missing)
                raise Violation("missing-input-accepted", f"program ran without {sorted(kw)[-1]}: {self.describe(case)}")
            except Violation:
                raise
            except Exception:
                pass
        # a program is a value: rejected calls leave nothing behind, the next valid call (also of a copy pickled now)
        # returns what the first one returned
        try:
            again = prog(**kw)
        except Exception as ex:
            raise Violation("program-broken-by-a-rejected-call", f"{type(ex).__name__}: {ex}: {self.describe(case)}")
        compare(again, "after-rejected-calls")
        try:
            compare(pickle.loads(pickle.dumps(prog))(**kw), "pickled-after-rejected-calls")
        except Violation:
            raise
        except Exception:
            pass
        # tracing a function of ops
        # the tracer handles a single output produced by an op (not a bare input / constant / tuple)
        if len(parts) == 1 and parts[0][0] not in ("var", "ten", "num") and kw and all(inputs[n][0] == "real" for n in kw):
            def fn(**env):
                r = tuple(eval_ops(p, env) for p in parts)
                return r[0] if len(r) == 1 else r

            try:
                traced = trace_function(fn, dict(kw), allow_constants=True)
            except Exception as ex:
                stt.decline("trace-raised:" + type(ex).__name__)
                traced = None
            if traced is not None:
                data2 = bindings(inputs, case["salt"] + 17)
                kw2 = {n: data2[n] for n in kw}
                o2 = Oracle()
                try:
                    want2 = [o2.ev(p, kw2) for p in parts]
                except OutOfDomain:
                    want2 = None
                if want2 is not None and not any(np.isnan(np.asarray(w, dtype=float)).any() or np.isinf(np.asarray(w, dtype=float)).any() for w in want2):
                    try:
                        g2 = traced(**{n: kw2[n] for n in traced.inputs})
                    except Exception as ex:
                        stt.decline("traced-program-raised:" + type(ex).__name__)
                        g2 = None
                    if g2 is not None:
                        g2 = g2 if len(parts) > 1 else (g2,)
                        for g, w, p in zip(g2, want2, parts):
                            if not close(np.asarray(g, dtype=float), np.asarray(w, dtype=float)):
                                raise Violation("traced:wrong-value", f"{np.asarray(g).tolist()} vs reference {np.asarray(w).tolist()} for {show(p)}: {self.describe(case)}")
                        stt.count("traced-checked")
        stt.count("completed")
        noncomm = any(n[0] == "bin" and n[1] in ("sub", "truediv", "pow", "matmul") and n[2] != n[3] for p in parts for n in walk(p)) or any(n[0] == "getitem" for p in parts for n in walk(p))
        seen, shared = set(), False
        for p in parts:
            for n in walk(p):
                if n[0] not in ("num",):
                    if n in seen and n[0] not in ("ten",):
                        shared = True
                    seen.add(n)
        if noncomm and shared:
            stt.mark_nontrivial(case_hash(case))


PROP = C18()
