"""C17 — interpretation contexts nest and unwind like a stack.

A *program* is a forest:
    item := ["probe", k] | ["raise", kind] | ["try", [items]]
          | ["block", interp, mode, [items]]          mode in {"with", "deco"}
          | ["prepare", slot, interp]                 create the context manager now, keep it in a slot
          | ["enter", slot, mode, [items]]            enter the manager kept in the slot (created earlier, possibly under another
                                                      interpretation; tapes, partial and base interpretations may be entered again)
The harness runs it against funsor and against an explicit stack model.
"""
import itertools

from hypothesis import strategies as st

from vf.core import Prop, Violation, case_hash

INTERPS = [
    "eager",
    "lazy",
    "reflect",
    "normalize",
    "sequential",
    "moment_matching",
    "memoize",
    "partial",
    "adjoint",
]
NPROBES = 4
RAISE_KINDS = ["plain", "construct", "subs"]


class Injected(Exception):
    pass


_env = {}


def env():
    """Lazily build funsor objects used by probes (once per process)."""
    if _env:
        return _env
    import numpy as np
    from collections import OrderedDict

    import funsor
    from funsor import Bint, Real, Reals, Tensor, Variable, ops
    from funsor.interpretations import DispatchedInterpretation
    from funsor.terms import Binary, Number

    partial = DispatchedInterpretation("vfpartial")

    @partial.register(Binary, ops.SubOp, Variable, Variable)
    def _marker(op, lhs, rhs):
        return Number(4242.0)

    _env.update(
        np=np,
        funsor=funsor,
        ops=ops,
        partial=partial,
        x=Variable("x", Real),
        y=Variable("y", Real),
        t1=Tensor(np.array([1.0, 2.0, 3.0]), OrderedDict(i=Bint[3])),
        t2=Tensor(np.array([[0.5, 1.0], [2.0, 4.0], [8.0, 16.0]]), OrderedDict(i=Bint[3], j=Bint[2])),
        bad=Tensor(np.ones((3, 2))),
        bad2=Tensor(np.ones((3, 5))),
        idx=Tensor(np.array([0, 1]), OrderedDict(k=Bint[2]), 2),
        Reals=Reals,
    )
    return _env


def make_cm(name):
    e = env()
    import funsor.interpretations as I
    from funsor.adjoint import AdjointTape

    if name == "memoize":
        return I.memoize()
    if name == "partial":
        return e["partial"]
    if name == "adjoint":
        return AdjointTape()
    return getattr(I, name)


def observe(f):
    """Canonical observable description of a probe result."""
    e = env()
    np = e["np"]
    from funsor.tensor import Tensor
    from funsor.terms import Number

    cls = type(f).__origin__.__name__ if hasattr(type(f), "__origin__") else type(f).__name__
    val = None
    if isinstance(f, Tensor):
        val = np.asarray(f.data, dtype=float).round(9).tolist()
    elif isinstance(f, Number):
        val = float(f.data)
    return (cls, tuple(f.inputs), val if not isinstance(val, list) else str(val))


def probe(k):
    e = env()
    ops = e["ops"]
    if k == 0:
        return observe(e["x"] + e["y"])
    if k == 1:
        return observe(e["t1"] * e["t2"])
    if k == 2:
        return observe(e["t2"].reduce(ops.add, "j"))
    if k == 3:
        return observe(e["x"] - e["y"])  # user partial rule fires here
    raise AssertionError(k)


def do_raise(kind):
    e = env()
    if kind == "plain":
        raise Injected()
    if kind == "construct":
        e["bad"] + e["bad2"]  # shape mismatch: raises inside term construction
        return
    if kind == "subs":
        from funsor.terms import Stack

        s = Stack("s", (e["x"] + e["y"], e["x"] * e["y"]))
        s(s=e["idx"])  # advanced indexing into Stack: raises inside substitution
        return


# ---------------------------------------------------------------- the model

BASE_CHAIN = {
    "eager": ("eager", "normalize", "reflect"),
    "lazy": ("lazy", "reflect"),
    "reflect": ("reflect",),
    "normalize": ("normalize", "reflect"),
    "sequential": ("sequential", "eager", "normalize", "reflect"),
    "moment_matching": ("moment_matching", "eager", "normalize", "reflect"),
}


class Model:
    """Explicit stack of (chain of names, semantic key)."""

    def __init__(self):
        # each element: (chain names, sem) where sem is the tuple of layers,
        # innermost first, ending in a base interpretation name.
        self.stack = [(BASE_CHAIN["reflect"], ("reflect",)), (BASE_CHAIN["eager"], ("eager",))]

    def top(self):
        return self.stack[-1]

    def enter(self, name):
        """returns None if funsor must refuse (chain overflow)."""
        chain, sem = self.top()
        if name in BASE_CHAIN:
            new = (BASE_CHAIN[name], (name,))
        elif name == "memoize":
            new = (("Memoize(" + "/".join(chain) + ")",), ("memoize",) + sem)
        elif name == "partial":
            c = ("vfpartial",) + chain
            if len(c) >= 10:
                return None
            new = (c, ("partial",) + sem)
        elif name == "adjoint":
            c = ("adjoint",) + chain
            if len(c) >= 10:
                return None
            new = (c, ("adjoint",) + sem)
        self.stack.append(new)
        return new

    def leave(self):
        self.stack.pop()

    def expected_probe(self, k, single):
        """What a probe must return under the model's top-of-stack.

        `single[(base, k)]` is the behaviour of base interpretation `base`
        entered alone (depth 1), measured once per process."""
        chain, sem = self.top()
        for layer in sem:
            if layer == "partial" and k == 3:
                return ("Number", (), 4242.0)
            if layer in BASE_CHAIN:
                return single[(layer, k)]
        raise AssertionError(sem)


_single = {}


def single_level():
    if _single:
        return _single
    for name in BASE_CHAIN:
        with make_cm(name):
            for k in range(NPROBES):
                _single[(name, k)] = probe(k)
    return _single


def run_program(prog, st=None):
    from funsor import interpreter
    import funsor.interpretations as I

    single = single_level()
    stack = interpreter._STACK
    if not (len(stack) == 2 and stack[0] is I.reflect and stack[1] is I.eager):
        raise Violation("initial-stack", f"stack before program is {stack}")
    model = Model()
    info = dict(maxdepth=0, partial_nested=False, raised=False, refused=False)

    def check_top(where):
        top = interpreter.get_interpretation()
        chain = tuple(s.__name__ for s in top.subinterpretations)
        want = model.top()[0]
        if chain != want:
            raise Violation("wrong-chain", f"{where}: active chain {chain}, model {want}")

    def run_items(items):
        for it in items:
            kind = it[0]
            if kind == "probe":
                got = probe(it[1])
                want = model.expected_probe(it[1], single)
                if got != want:
                    raise Violation(
                        "probe-interpreted-by-wrong-context",
                        f"probe {it[1]} under model stack {[s[1] for s in model.stack]}: got {got}, expected {want}",
                    )
            elif kind == "raise":
                info["raised"] = True
                do_raise(it[1])
            elif kind == "try":
                before = interpreter.get_interpretation()
                depth = len(stack)
                mdepth = len(model.stack)
                try:
                    run_items(it[1])
                except Violation:
                    raise
                except Exception:
                    del model.stack[mdepth:]
                if interpreter.get_interpretation() is not before or len(stack) != depth:
                    raise Violation("not-unwound-after-exception", f"after try: top={interpreter.get_interpretation()}, expected {before}; depth {len(stack)} vs {depth}")
                check_top("after try")
            elif kind in ("block", "enter"):
                run_block(it)
            elif kind == "prepare":
                slots[it[1]] = (it[2], make_cm(it[2]))

    slots = {}
    active = []

    def run_block(b):
        if b[0] == "enter":
            _, slot, mode, items = b
            if slot not in slots:
                slots[slot] = ("adjoint", make_cm("adjoint"))
            name, cm = slots[slot]
            if name == "adjoint" and any(a is cm for a in active):
                # a tape that is active right now is not re-entrant (entering resets its tape and its enclosing
                # interpretation): only entering it again after it was left is part of the domain
                cm = make_cm("adjoint")
                slots[slot] = (name, cm)
            info["reentered"] = info.get("reentered", False) or (slot, "used") in slots
            slots[(slot, "used")] = True
            if name == "memoize":
                del slots[slot]  # a generator-based context manager is single-use
            info["prepared"] = True
        else:
            _, name, mode, items = b
            cm = None
        before = interpreter.get_interpretation()
        depth = len(stack)
        mdepth = len(model.stack)
        if cm is None:
            cm = make_cm(name)
        entered = model.enter(name)
        if entered is None:
            info["refused"] = True
            model_refuses = True
        else:
            model_refuses = False
        info["maxdepth"] = max(info["maxdepth"], len(model.stack) - 2)
        if entered is not None and len(entered[1]) >= 2 and ("partial" in entered[1] or "adjoint" in entered[1]):
            info["partial_nested"] = True

        def body():
            if model_refuses:
                raise Violation("overflow-not-refused", "chain of >= 10 sub-interpretations was entered")
            check_top(f"inside {name}")
            # identity, not only names: a partial layer sits directly on the interpretation that was active when it was
            # entered (two contexts may carry the same name), a memoize layer wraps exactly that interpretation
            top = interpreter.get_interpretation()
            if name in ("partial", "adjoint"):
                want_objs = (cm,) + tuple(before.subinterpretations)
                got_objs = tuple(top.subinterpretations)
                if len(got_objs) != len(want_objs) or any(a is not b for a, b in zip(got_objs, want_objs)):
                    raise Violation("layer-over-the-wrong-interpretation", f"inside {name}: the active chain is not (this context,) + the chain active at entry (same names, other objects); model stack {[s_[1] for s_ in model.stack]}")
            elif name == "memoize":
                if getattr(top, "base_interpretation", None) is not before:
                    raise Violation("layer-over-the-wrong-interpretation", f"inside memoize: it wraps {getattr(top, 'base_interpretation', None)!r}, active at entry was {before!r}")
            run_items(items)

        active.append(cm)
        try:
            if mode == "with":
                with cm:
                    body()
            else:

                @cm
                def f():
                    body()

                f()
        except Violation:
            raise
        except AssertionError:
            if not model_refuses:
                raise
            # refused in __enter__ before the push
            del model.stack[mdepth:]
            if interpreter.get_interpretation() is not before or len(stack) != depth:
                raise Violation("stack-changed-by-refused-enter", "")
            raise Injected()
        finally:
            active.pop()
            del model.stack[mdepth:]
            import sys

            exc = sys.exc_info()[1]
            if not isinstance(exc, Violation):
                if interpreter.get_interpretation() is not before or len(stack) != depth:
                    raise Violation(
                        "not-restored-on-exit",
                        f"after leaving {name} ({mode}, exc={type(exc).__name__ if exc else None}): "
                        f"top={interpreter.get_interpretation()!r} expected {before!r}; depth {len(stack)} vs {depth}",
                    )

    try:
        try:
            run_items(prog)
        except Violation:
            raise
        except Exception:
            pass
        if not (len(stack) == 2 and stack[0] is I.reflect and stack[1] is I.eager):
            raise Violation("final-stack", f"stack after program is {list(stack)}")
        if probe(1) != single[("eager", 1)]:
            raise Violation("default-not-eager", "")
    finally:
        # never let one case poison the next
        del stack[2:]
        if len(stack) < 2 or stack[0] is not I.reflect or stack[1] is not I.eager:
            stack[:] = [I.reflect, I.eager]
    return info


# ---------------------------------------------------------------- generation

def items_strategy(depth, top=True):
    leaf = st.one_of(
        st.tuples(st.just("probe"), st.integers(0, NPROBES - 1)),
        st.tuples(st.just("probe"), st.integers(0, NPROBES - 1)),
        st.tuples(st.just("raise"), st.sampled_from(RAISE_KINDS)),
    )
    if depth == 0:
        return st.lists(leaf, max_size=2)
    sub = items_strategy(depth - 1, False)
    block = st.tuples(st.just("block"), st.sampled_from(INTERPS), st.sampled_from(["with", "deco"]), sub)
    prepare = st.tuples(st.just("prepare"), st.integers(0, 1), st.sampled_from(["adjoint", "adjoint", "memoize", "memoize", "partial", "lazy", "normalize"]))
    enter = st.tuples(st.just("enter"), st.integers(0, 1), st.sampled_from(["with", "with", "deco"]), sub)
    tr = st.tuples(st.just("try"), sub)
    if top:
        return st.lists(st.one_of(block, block, block, prepare, enter, st.tuples(st.just("try"), st.lists(block, min_size=1, max_size=2))), min_size=1, max_size=4)
    return st.lists(st.one_of(leaf, block, block, block, prepare, enter, enter, tr), min_size=1, max_size=3)


def forests(n):
    """All forests (as nested lists of children) with n nodes."""
    if n == 0:
        yield ()
        return
    # first tree has k nodes (root + k-1 below), rest n-k
    for k in range(1, n + 1):
        for sub in forests(k - 1):
            for rest in forests(n - k):
                yield (sub,) + rest


def label(forest, names, modes, counter, raise_at):
    out = []
    for sub in forest:
        i = counter[0]
        counter[0] += 1
        items = [("probe", i % NPROBES)]
        if raise_at == ("in", i):
            items.append(("raise", RAISE_KINDS[i % 3]))
        items.extend(label(sub, names, modes, counter, raise_at))
        items.append(("probe", (i + 1) % NPROBES))
        if raise_at == ("end", i):
            items.append(("raise", "plain"))
        blk = ("block", names[i], modes[i], tuple(items))
        if raise_at is not None:
            blk = ("try", (blk,))
        out.append(blk)
        out.append(("probe", (i + 2) % NPROBES))
    return tuple(out)


class C17(Prop):
    id = "C17"
    rule = (
        "program = forest of interpretation blocks (9 interpretations, with-block or decorator) with probes, "
        "try-blocks and injected exceptions (plain raise, failing term construction, failing substitution); "
        "exhaustive over all forests with <=2 (quick) / <=3 (thorough) blocks x all interpretations x raise position, "
        "plus Hypothesis-generated forests up to depth 4; distinct = hash of program; non-trivial = nesting depth >= 2 "
        "involving a partial layer (user partial / adjoint tape / memoize) or an injected exception"
    )
    assumptions = (
        "single-level behaviour of each base interpretation (measured once, depth 1) is the reference for probes",
        "sequential process: funsor has no threads; the stack is a process global",
    )
    cases = {"quick": 2400, "thorough": 100000}

    def strategy(self, tier):
        return items_strategy(3 if tier == "quick" else 4)

    def check(self, case, stt):
        info = run_program(case)
        stt.count(f"depth={info['maxdepth']}")
        if info["raised"]:
            stt.count("with-injected-exception")
        if info["refused"]:
            stt.count("overflow-refused")
        if info.get("prepared"):
            stt.count("entered-a-prepared-context")
        if info.get("reentered"):
            stt.count("re-entered-the-same-context-object")
        if (info["maxdepth"] >= 2 and info["partial_nested"]) or info["raised"] or info.get("reentered"):
            stt.mark_nontrivial(case_hash(case))

    def extra(self, tier, shard, nshards, stt, seed):
        if tier == "quick":
            # every chain of three nested blocks (the quick enumeration below stops at two blocks)
            idx = 0
            for names in itertools.product(INTERPS, repeat=3):
                idx += 1
                if idx % nshards != shard:
                    continue
                for ra in (None, ("in", 2)):
                    prog = label(((((),),),), names, ["with", "with", "with"], [0], ra)
                    stt.evaluations += 1
                    try:
                        info = run_program(prog)
                    except Violation as v:
                        stt.violations.append(dict(bucket=v.bucket + "|chain3", message=v.message + f" program={prog}", case=prog))
                        return
                    stt.mark_nontrivial(case_hash(prog))
        maxn = 2 if tier == "quick" else 3
        idx = 0
        for n in range(1, maxn + 1):
            for forest in forests(n):
                for names in itertools.product(INTERPS, repeat=n):
                    idx += 1
                    if idx % nshards != shard:
                        continue
                    for modebits in ([0], [0, (1 << n) - 1, 0b101 & ((1 << n) - 1)])[n > 1]:
                        modes = ["deco" if (modebits >> i) & 1 else "with" for i in range(n)]
                        positions = [None] + [(w, i) for i in range(n) for w in ("in", "end")]
                        for ra in positions:
                            prog = label(forest, names, modes, [0], ra)
                            stt.evaluations += 1
                            try:
                                info = run_program(prog)
                            except Violation as v:
                                stt.violations.append(dict(bucket=v.bucket, message=v.message, case=prog))
                                return
                            if (info["maxdepth"] >= 2 and info["partial_nested"]) or info["raised"]:
                                stt.mark_nontrivial(case_hash(prog))
                            stt.count("enumerated")
        stt.exhaustive = True
        stt.notes["max_enumerated_blocks"] = maxn


PROP = C17()
