"""C06 — declared types match actual values.

G1 (extra): op catalogue x operand domains x parameters, enumerated.
G2 (strategy): generated ASTs — lazily declared type vs the framework typing
rule, eager result vs lazily declared type, data vs declaration.
"""
import itertools
import os

import numpy as np
from hypothesis import strategies as st

from vf.core import Decline, Prop, Violation, case_hash, innermost_funsor_frame
from vf.gen import Opts, exprs
from vf.lang import ast_shrinks, show, typeof, walk
from vf.props.c01 import ast_signature

SHAPES = [(), (1,), (2,), (3,), (1, 2), (2, 1), (2, 3), (3, 2), (2, 2), (1, 1), (2, 1, 3), (2, 3, 2), (1, 2, 2)]


def real_array(shape, salt=0):
    n = int(np.prod(shape)) if shape else 1
    vals = [0.25 * (1 + ((salt * 7 + 3 * i * i + 5 * i) % 8)) for i in range(n)]
    return np.asarray(vals, dtype=float).reshape(shape)


def int_arrays(size, shape, lo=0):
    """all-min, all-max and a mixed array of a bounded-integer domain."""
    n = int(np.prod(shape)) if shape else 1
    out = [np.full(shape, lo, dtype=np.int64), np.full(shape, size - 1, dtype=np.int64)]
    if size - lo > 1:
        mixed = np.asarray([lo + (3 * i + 1) % (size - lo) for i in range(n)], dtype=np.int64).reshape(shape)
        out.append(mixed)
    return out


def catalogue():
    """Yields (label, nontrivial, thunk) where thunk() -> (declared domain, list of actual arrays)."""
    import funsor.ops as ops
    from funsor.domains import Array, Bint, Reals, find_domain

    def dom(dt, shape):
        return Array[dt, shape]

    # ---- unary pointwise on reals
    for name in ["neg", "abs", "exp", "log", "sqrt", "log1p", "sigmoid", "tanh", "atanh", "reciprocal"]:
        op = getattr(ops, name)
        for shape in SHAPES:
            x = real_array(shape) * (0.4 if name == "atanh" else 1.0)
            yield (f"{name}{shape}", len(shape) >= 2, lambda op=op, shape=shape, x=x: (find_domain(op, dom("real", shape)), [op(x)], "real"))
    for name in ["exp", "log"]:
        op = getattr(ops, name)
        for size in (2, 3, 5):
            for shape in SHAPES[:6]:
                xs = int_arrays(size, shape, lo=1 if name == "log" else 0)
                yield (f"{name}<Bint{size}>{shape}", True, lambda op=op, size=size, shape=shape, xs=xs: (find_domain(op, dom(size, shape)), [op(x) for x in xs], "real"))
    # ---- output reductions
    for name in ["sum", "prod", "amax", "amin", "logsumexp", "mean", "std", "var", "all", "any"]:
        cls = type(getattr(ops, name))
        for shape in [s for s in SHAPES if s]:
            nd = len(shape)
            axes = [None] + list(range(-nd, nd)) + [tuple(c) for r in (1, 2) for c in itertools.combinations(range(nd), r)] + [(-1,)]
            for axis in axes:
                for keepdims in (False, True):
                    if name in ("all", "any"):
                        x = (real_array(shape) > 1.0)
                        d = dom(2, shape)
                        kind = 2
                    else:
                        x = real_array(shape)
                        d = dom("real", shape)
                        kind = "real"
                    if name in ("std", "var"):
                        op = cls(axis, 0, keepdims)
                    else:
                        op = cls(axis, keepdims)
                    yield (f"{name}{shape}axis={axis},keepdims={keepdims}", axis is not None or keepdims, lambda op=op, d=d, x=x, kind=kind: (find_domain(op, d), [op(x)], kind))
    # ---- reshape
    for shape in SHAPES:
        n = int(np.prod(shape)) if shape else 1
        targets = {(n,), shape} | {(a, n // a) for a in range(1, n + 1) if n % a == 0} | ({()} if n == 1 else set())
        for tgt in sorted(targets):
            op = ops.ReshapeOp(tgt)
            for dt in ("real", 3):
                x = real_array(shape) if dt == "real" else int_arrays(3, shape)[-1]
                yield (f"reshape{shape}->{tgt}<{dt}>", True, lambda op=op, dt=dt, shape=shape, x=x: (find_domain(op, dom(dt, shape)), [op(x)], dt))
    # ---- getslice
    def index_family(nd):
        items = [0, -1, slice(None), slice(1, None), slice(None, -1), slice(None, None, 2), slice(0, 2), slice(1, 3, 2), None, Ellipsis]
        for it in items:
            yield it
        for a, b in itertools.product(items, repeat=2):
            if a is Ellipsis and b is Ellipsis:
                continue
            yield (a, b)
        if nd >= 2:
            for a, b, c in itertools.product([0, slice(None), slice(None, None, 2), None, Ellipsis, slice(1, None)], repeat=3):
                if [a, b, c].count(Ellipsis) > 1:
                    continue
                yield (a, b, c)

    for shape in [s for s in SHAPES if s]:
        x = real_array(shape)
        for index in index_family(len(shape)):
            try:
                expected = x[index]
            except IndexError:
                continue
            op = ops.GetsliceOp(index)
            yield (f"getslice{shape}[{index}]", True, lambda op=op, shape=shape, expected=expected: (find_domain(op, dom("real", shape)), [expected, op(real_array(shape))], "real"))
    # ---- getitem
    for shape in [s for s in SHAPES if s]:
        for offset in range(len(shape)):
            op = ops.GetitemOp(offset)
            x = real_array(shape)
            n = shape[offset]
            yield (f"getitem{shape}@{offset}", True, lambda op=op, shape=shape, x=x, n=n, offset=offset: (find_domain(op, dom("real", shape), Bint[n]), [x[(slice(None),) * offset + (i,)] for i in range(n)], "real"))
    # ---- binary on reals (broadcast pairs)
    pairs = []
    for a in SHAPES:
        for b in SHAPES:
            try:
                np.broadcast_shapes(a, b)
            except ValueError:
                continue
            pairs.append((a, b))
    for name in ["add", "sub", "mul", "truediv", "pow", "max", "min", "logaddexp", "eq", "ne", "lt", "le", "gt", "ge", "floordiv", "mod"]:
        op = getattr(ops, name)
        for a, b in pairs:
            x, y = real_array(a, 1), real_array(b, 2)
            kind = 2 if name in ("eq", "ne", "lt", "le", "gt", "ge") else "real"
            yield (f"{name}{a}{b}", a != b, lambda op=op, a=a, b=b, x=x, y=y, kind=kind: (find_domain(op, dom("real", a), dom("real", b)), [op(x, y)], kind))
    # ---- binary on bounded integers
    for name in ["add", "mul", "max", "min", "eq", "ne", "lt", "le", "gt", "ge", "floordiv", "mod"]:
        op = getattr(ops, name)
        for l, r in itertools.product((1, 2, 3, 5), repeat=2):
            for a, b in [((), ()), ((2,), ()), ((2, 1), (3,))]:
                if name in ("floordiv", "mod"):
                    if r < 2:
                        continue
                    ys = int_arrays(r, b, lo=1)
                else:
                    ys = int_arrays(r, b)
                xs = int_arrays(l, a)
                kind = 2 if name in ("eq", "ne", "lt", "le", "gt", "ge") else "int"
                yield (f"{name}<Bint{l},Bint{r}>{a}{b}", True, lambda op=op, l=l, r=r, a=a, b=b, xs=xs, ys=ys, kind=kind: (find_domain(op, dom(l, a), dom(r, b)), [op(x, y) for x in xs for y in ys], kind))
    # ---- logic on booleans
    for name in ["and_", "or_", "xor"]:
        op = getattr(ops, name)
        for a, b in [((), ()), ((2,), ()), ((2, 2), (2,))]:
            xs = [np.zeros(a, dtype=bool), np.ones(a, dtype=bool)]
            ys = [np.zeros(b, dtype=bool), np.ones(b, dtype=bool)]
            yield (f"{name}{a}{b}", True, lambda op=op, a=a, b=b, xs=xs, ys=ys: (find_domain(op, dom(2, a), dom(2, b)), [op(x, y) for x in xs for y in ys], 2))
    for a in [(), (2,), (2, 2)]:
        xs = [np.zeros(a, dtype=bool), np.ones(a, dtype=bool)]
        yield (f"invert{a}", True, lambda a=a, xs=xs: (find_domain(ops.invert, dom(2, a)), [ops.invert(x) for x in xs], 2))
    # ---- matmul
    for a, b in [((2,), (2,)), ((3, 2), (2,)), ((2,), (2, 3)), ((3, 2), (2, 4)), ((2, 3, 2), (2, 1)), ((3, 2), (2, 2, 3)), ((1, 3, 2), (4, 2, 1)), ((2, 3, 2), (2,)), ((2,), (3, 2, 2))]:
        x, y = real_array(a, 1), real_array(b, 2)
        yield (f"matmul{a}{b}", True, lambda a=a, b=b, x=x, y=y: (find_domain(ops.matmul, dom("real", a), dom("real", b)), [np.matmul(x, y), ops.matmul(x, y)], "real"))
    # ---- stack / cat
    for shapes in [((), ()), ((2,), (2,)), ((2,), ()), ((2, 3), (3,)), ((2, 3), (2, 3), (2, 3)), ((1, 3), (2, 1))]:
        rank = max(len(s) for s in shapes)
        for dim in range(-rank - 1, rank + 1):
            op = ops.StackOp(dim)
            xs = [real_array(s, i) for i, s in enumerate(shapes)]
            def thunk(op=op, shapes=shapes, xs=xs, dim=dim):
                bs = np.broadcast_shapes(*shapes)
                exp = np.stack([np.broadcast_to(x, bs) for x in xs], dim if dim < 0 else dim - len(bs) - 1)
                return (find_domain(op, tuple(dom("real", s) for s in shapes)), [exp], "real")
            yield (f"stack{shapes}dim={dim}", True, thunk)
    for shapes in [((2,), (3,)), ((2, 3), (2, 1)), ((2, 3), (1, 3)), ((1, 2, 2), (1, 2, 3), (1, 2, 1))]:
        rank = len(shapes[0])
        for axis in range(-rank, rank):
            try:
                exp = np.concatenate([real_array(s, i) for i, s in enumerate(shapes)], axis)
            except ValueError:
                continue
            op = ops.CatOp(axis)
            yield (f"cat{shapes}axis={axis}", True, lambda op=op, shapes=shapes, exp=exp: (find_domain(op, tuple(dom("real", s) for s in shapes)), [exp], "real"))
    # ---- einsum
    for eqn, shapes in [("ij,jk->ik", ((2, 3), (3, 2))), ("i,i->", ((3,), (3,))), ("ij->ji", ((2, 3),)), ("ij,j->i", ((2, 3), (3,))), ("i,j->ij", ((2,), (3,))), ("ijk,k->ij", ((2, 1, 3), (3,))), ("ii->i", ((2, 2),)), (",i->i", ((), (3,)))]:
        op = ops.EinsumOp(eqn)
        xs = [real_array(s, i) for i, s in enumerate(shapes)]
        yield (f"einsum[{eqn}]", True, lambda op=op, eqn=eqn, shapes=shapes, xs=xs: (find_domain(op, tuple(dom("real", s) for s in shapes)), [np.einsum(eqn, *xs)], "real"))
    # ---- astype
    for dtype, kind in [("float32", "real"), ("float64", "real"), ("bool", 2), ("int64", "same"), ("int32", "same")]:
        op = ops.AstypeOp(dtype)
        for shape in SHAPES[:5]:
            x = int_arrays(3, shape)[-1]
            yield (f"astype[{dtype}]{shape}", True, lambda op=op, shape=shape, x=x, kind=kind: (find_domain(op, dom(3, shape)), [op(x)], 3 if kind == "same" else kind))


def eager_catalogue():
    """G3: (label, nontrivial, thunk); thunk() -> (lazily declared output domain, eager funsor).  Unary and binary ops on
    Tensor / Number operands of every dtype class (real, boolean, bounded integer), event shapes of rank 0-2, with and
    without batch inputs: the eager rules must declare what the lazy term (find_domain) declares, and hold matching data."""
    from collections import OrderedDict

    import funsor.interpretations as I
    import funsor.ops as ops
    from funsor.domains import Bint
    from funsor.tensor import Tensor
    from funsor.terms import Binary, Number, Unary

    def operand(dt, shape, batch, salt=0):
        bshape = (2,) if batch else ()
        ins = OrderedDict(i=Bint[2]) if batch else OrderedDict()
        if dt == "real":
            data = real_array(bshape + shape, salt)
        elif dt == "bool":
            data = real_array(bshape + shape, salt) > 1.0
            return Tensor(data, ins, 2)
        else:
            data = int_arrays(dt, bshape + shape)[-1]
        return Tensor(data, ins, dt)

    def both(build):
        def thunk():
            with I.reflect:
                lazy = build()
            return lazy.output, build()

        return thunk

    kinds = ["real", "bool", 3, 5]
    shapes = [(), (2,), (2, 3)]
    for dt in kinds:
        for shape in shapes:
            for batch in (False, True):
                tag = f"<{dt}>{shape}{'[i]' if batch else ''}"
                for name in ["neg", "abs", "exp", "log", "sqrt", "log1p", "sigmoid", "tanh", "reciprocal", "invert"]:
                    if (name == "invert") != (dt == "bool") or (dt in (3, 5) and name not in ("exp", "log")):
                        continue
                    op = getattr(ops, name)
                    yield (f"eager:{name}{tag}", dt != "real", both(lambda op=op, dt=dt, shape=shape, batch=batch: Unary(op, operand(dt, shape, batch))))
                nd = len(shape)
                axes = [None] + list(range(-nd, nd)) + ([(0,), tuple(range(nd))] if nd else [])
                for name in ["sum", "prod", "amax", "amin", "logsumexp", "mean", "std", "var", "all", "any"]:
                    if dt != "real" and name not in ("all", "any"):
                        continue
                    cls = type(getattr(ops, name))
                    for axis in axes:
                        for keepdims in (False, True):
                            op = cls(axis, 0, keepdims) if name in ("std", "var") else cls(axis, keepdims)
                            yield (f"eager:{name}{tag}axis={axis},keepdims={keepdims}", True, both(lambda op=op, dt=dt, shape=shape, batch=batch: Unary(op, operand(dt, shape, batch))))
    CMP = ["eq", "ne", "lt", "le", "gt", "ge"]
    # the operand kinds each op is defined for (the same pairing as G1; integer floordiv is the open finding)
    allowed = {}
    for name in ["add", "sub", "mul", "truediv", "pow", "max", "min", "logaddexp", "mod"] + CMP:
        allowed[name] = {("real", "real")}
    for name in ["add", "mul", "max", "min", "mod"] + CMP:
        allowed[name] |= {(3, 3), (3, 5), (5, 3), (5, 5)}
    for name in ["add", "mul", "max", "min", "sub", "truediv"]:
        allowed[name] |= {("real", 3), (3, "real"), ("real", 5), (5, "real")}
    for name in ["and_", "or_", "xor", "eq", "ne"]:
        allowed.setdefault(name, set()).add(("bool", "bool"))
    for name in sorted(allowed):
        op = getattr(ops, name)
        for ld, rd in sorted(allowed[name], key=str):
            for lshape, rshape in [((), ()), ((2,), ()), ((), (2,)), ((2, 3), (3,))]:
                for lb, rb in [(False, False), (True, False), (False, True)]:
                    tag = f"<{ld},{rd}>{lshape}{rshape}{'[i]' if lb else ''}{'[i]' if rb else ''}"
                    yield (f"eager:{name}{tag}", True, both(lambda op=op, ld=ld, rd=rd, lshape=lshape, rshape=rshape, lb=lb, rb=rb: Binary(op, operand(ld, lshape, lb, 1), operand(rd, rshape, rb, 2))))
            # Number operands
            for side in ("number-left", "number-right"):
                nd_, td = (ld, rd) if side == "number-left" else (rd, ld)
                num = Number(1.5) if nd_ == "real" else Number(1, 2 if nd_ == "bool" else nd_)
                yield (f"eager:{name}<{ld},{rd}>{side}", True, both(lambda op=op, num=num, td=td, side=side: Binary(op, num, operand(td, (2,), True)) if side == "number-left" else Binary(op, operand(td, (2,), True), num)))


def check_eager_entry(label, thunk):
    from funsor.tensor import Tensor
    from funsor.terms import Number
    from vf.build import check_tensor_data

    try:
        declared, eager = thunk()
    except Exception as e:
        raise Decline("eager-catalogue-raised:" + type(e).__name__)
    if not isinstance(eager, (Tensor, Number)):
        raise Decline("eager-catalogue-stays-lazy")
    if eager.output != declared:
        raise Violation("eager-catalogue:output", f"{label}: the eager rule returns output {eager.output}, the lazy term declares {declared}")
    err = check_tensor_data(eager)
    if err:
        raise Violation("eager-catalogue:data", f"{label}: {err}")
    if isinstance(eager, Tensor):
        kind = np.asarray(eager.data).dtype.kind
        if declared.dtype == "real" and kind not in "f":
            raise Violation("eager-catalogue:data-kind", f"{label}: declared real, data has dtype {np.asarray(eager.data).dtype}")
        if declared.dtype != "real" and kind == "f":
            raise Violation("eager-catalogue:data-kind", f"{label}: declared Bint[{declared.dtype}], data has dtype {np.asarray(eager.data).dtype}")


def check_entry(label, thunk):
    try:
        declared, actuals, kind = thunk()
    except Exception as e:
        raise Decline("find_domain-or-op-raised:" + type(e).__name__)
    for actual in actuals:
        actual = np.asarray(actual)
        if tuple(declared.shape) != tuple(actual.shape):
            raise Violation("catalogue:shape", f"{label}: find_domain says shape {tuple(declared.shape)}, op returns {tuple(actual.shape)}")
        if kind == "real":
            if declared.dtype != "real":
                raise Violation("catalogue:dtype", f"{label}: declared dtype {declared.dtype}, op returns reals")
        else:
            if declared.dtype == "real":
                raise Violation("catalogue:dtype", f"{label}: declared real, op returns {actual.dtype}")
            if kind not in ("int",) and declared.dtype != kind:
                raise Violation("catalogue:dtype", f"{label}: declared Bint[{declared.dtype}], expected Bint[{kind}]")
            a = actual.astype(np.int64)
            if a.size and (a.min() < 0 or a.max() >= declared.dtype):
                raise Violation("catalogue:range", f"{label}: values in [{a.min()},{a.max()}] outside declared [0,{declared.dtype})")


def floordiv_known(label):
    return label.startswith("floordiv<Bint")


class C06(Prop):
    id = "C06"
    rule = (
        "G1: enumerated catalogue of (op, operand domains, parameters) - every op with a find_domain rule x shapes of rank 0-3 x "
        "every axis/keepdims/index/offset/shape/dtype/equation parameter; the op is run on arrays (all-min, all-max, mixed for bounded "
        "integers) and shape, dtype class and value range compared with find_domain. G2: generated ASTs - the reflect-built term must declare "
        "exactly the inputs and output the framework typing rule predicts (integer sizes: at least the tight range), the eager result the same "
        "output and a subset of inputs, tensor data exactly the declared batch+event shape and integer data inside [0,size). "
        "distinct = catalogue label / AST hash; non-trivial = non-default parameter or rank>=2 (G1), >=2 constructor kinds (G2)"
    )
    assumptions = (
        "ops are paired only with operand kinds they are defined for (DESIGN.md C06 S)",
        "bounded-integer typing rule of the framework is the tight range; funsor may declare more, never less",
    )
    cases = {"quick": 4000, "thorough": 80000}

    known_predicates = {
        "floordiv-bint-bound": lambda case, v: ("floordiv" in str(v.message)) and ("range" in v.bucket or "output" in v.bucket or "int-bound" in v.bucket),
    }

    def excluded(self, case):
        return any(n[0] == "bin" and n[1] == "floordiv" and typeof(n)[1][0] != "real" for n in walk(case["ast"]))

    def strategy(self, tier):
        d = 3 if tier == "quick" else 4
        a = exprs(Opts(max_depth=d), None)
        b = exprs(Opts(max_depth=d, reals=True), None)
        c = exprs(Opts(max_depth=d, ops_binary=("add", "mul", "max", "min", "sub", "truediv")), (3, ()))
        pm = exprs(Opts(reals=True, max_depth=2, deltas=True, consts=True, max_names=3), ("real", ()))
        return st.one_of(a, a, b, c, pm).map(lambda t: {"ast": t})

    def describe(self, case):
        return show(case["ast"]) if isinstance(case, dict) and "ast" in case else str(case)

    def signature(self, case):
        return ast_signature(case["ast"])

    def shrink_candidates(self, case):
        for c in ast_shrinks(case["ast"]):
            yield {"ast": c}

    def extra(self, tier, shard, nshards, stt, seed):
        if isinstance(tier, str):
            entries = list(catalogue()) + list(eager_catalogue())
        n = 0
        for i, (label, nt, thunk) in enumerate(entries):
            if i % nshards != shard:
                continue
            if tier == "quick" and (i * 2654435761 + seed) % 100 >= 35 and not label.startswith(("sum", "getslice(2, 3)", "floordiv", "mod", "matmul", "stack", "cat")):
                continue
            stt.evaluations += 1
            n += 1
            try:
                (check_eager_entry if label.startswith("eager:") else check_entry)(label, thunk)
            except Decline as d:
                stt.decline(d.bucket)
                continue
            except Violation as v:
                if floordiv_known(label):
                    stt.known["floordiv-bint-bound"] += 1
                    continue
                stt.violations.append(dict(bucket=v.bucket + "|" + label.split("(")[0].split("<")[0].split("[")[0], message=v.message, case={"catalogue": label}))
                continue
            stt.count("catalogue:" + label.split("(")[0].split("<")[0].split("[")[0])
            if nt:
                stt.mark_nontrivial("cat:" + label)
        stt.notes["catalogue_entries_total"] = len(entries) if shard == 0 else 0
        if tier == "thorough":
            stt.exhaustive = True

    def check(self, case, stt):
        from funsor import interpreter
        import funsor.interpretations as I

        typecheck = os.environ.get("FUNSOR_TYPECHECK", "0") == "1"
        if typecheck:
            stt.count("FUNSOR_TYPECHECK=1")
        try:
            return self._check(case, stt)
        finally:
            # whatever the re-check did (it may raise), the default interpretation is back afterwards
            stack = interpreter._STACK
            if len(stack) != 2 or stack[0] is not I.reflect or stack[1] is not I.eager:
                names = [getattr(x, "__name__", repr(x)) for x in stack]
                del stack[2:]
                if len(stack) < 2 or stack[0] is not I.reflect or stack[1] is not I.eager:
                    stack[:] = [I.reflect, I.eager]
                import sys

                if not isinstance(sys.exc_info()[1], Violation):
                    raise Violation("interpretation-stack-not-restored", f"after the case the interpretation stack is {names} (FUNSOR_TYPECHECK={int(typecheck)}): {self.describe(case)}")

    def _check(self, case, stt):
        import funsor.interpretations as I
        from vf.build import build, check_tensor_data, funsor_type

        if "catalogue" in case:
            label = case["catalogue"]
            for lab, nt, thunk in itertools.chain(catalogue(), eager_catalogue()):
                if lab == label:
                    (check_eager_entry if lab.startswith("eager:") else check_entry)(lab, thunk)
                    return
            raise Decline("unknown catalogue label")
        node = case["ast"]
        inputs, out = typeof(node)
        try:
            with I.reflect:
                t = build(node)
        except Exception as e:
            raise Decline("reflect-build-raised:" + innermost_funsor_frame(e))
        fin, fout = funsor_type(t)
        if fin != inputs:
            raise Violation("lazy-inputs", f"lazily built term declares inputs {fin}, typing rule predicts {inputs}: {show(node)}")
        if tuple(fout[1]) != tuple(out[1]):
            raise Violation("lazy-output-shape", f"declares output shape {fout[1]}, typing rule predicts {out[1]}: {show(node)}")
        if (fout[0] == "real") != (out[0] == "real"):
            raise Violation("lazy-output-dtype", f"declares dtype {fout[0]}, typing rule predicts {out[0]}: {show(node)}")
        if out[0] != "real" and fout[0] < out[0]:
            raise Violation("lazy-output-int-bound", f"declares Bint[{fout[0]}] but values reach {out[0] - 1}: {show(node)}")
        stt.count("lazy-type-ok")
        try:
            fe = build(node)
        except Exception as e:
            raise Decline("eager-build-raised:" + innermost_funsor_frame(e))
        ein, eout = funsor_type(fe)
        if eout != fout:
            raise Violation("eager-output-differs-from-lazy", f"eager output {eout}, lazily declared {fout}: {show(node)}")
        if not set(ein) <= set(fin) or any(ein[k] != fin[k] for k in ein):
            raise Violation("eager-inputs-not-subset", f"eager inputs {ein}, lazily declared {fin}: {show(node)}")
        err = check_tensor_data(fe)
        if err:
            raise Violation("data-vs-declaration", f"{err}: {show(node)}")
        stt.count("eager-type-ok")
        # the same for the two deferred routes to a value: the reflect-built term evaluated afterwards, and the term built
        # under normalize (normal forms, n-ary contractions) evaluated afterwards
        from funsor.interpreter import reinterpret

        for route in ("reflect-then-evaluate", "normalize-then-evaluate"):
            try:
                if route == "reflect-then-evaluate":
                    fr = reinterpret(t)
                else:
                    with I.normalize:
                        tn = build(node)
                    fr = reinterpret(tn)
            except Exception as e:
                stt.count(route + "-raised:" + innermost_funsor_frame(e))
                continue
            rin, rout = funsor_type(fr)
            if rout != fout:
                raise Violation("deferred-output-differs-from-lazy", f"{route}: output {rout}, lazily declared {fout}: {show(node)}")
            if not set(rin) <= set(fin) or any(rin[k] != fin[k] for k in rin):
                raise Violation("deferred-inputs-not-subset", f"{route}: inputs {rin}, lazily declared {fin}: {show(node)}")
            err = check_tensor_data(fr)
            if err:
                raise Violation("data-vs-declaration", f"{route}: {err}: {show(node)}")
            stt.count(route + "-type-ok")
        kinds = {n[0] for n in walk(node) if n[0] not in ("num", "ten", "var", "slice")}
        if len(kinds) >= 2:
            stt.mark_nontrivial(case_hash(node))


PROP = C06()
