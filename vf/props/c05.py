"""C05 — bound variables are invisible: no capture, no leakage, renaming-invariant."""
import numpy as np
from hypothesis import strategies as st
from vf.core import robust_gen

from vf.core import Decline, Prop, Violation, case_hash, innermost_funsor_frame
from vf.gen import G, HypSource, Opts, SeedSource, exprs
from vf.lang import (
    ast_shrinks,
    binder_names,
    close,
    leaf_names,
    rename_binders,
    show,
    typeof,
    walk,
)
from vf.props.c01 import ast_signature, evaluate_against_oracle

MODES = ["eager", "lazy", "reflect", "normalize", "normalize"]


def gen_self_subst(src, opts):
    """t(k=t) for a lazy integer-valued t that has an input k of its own output domain."""
    g = G(src, opts)
    n = g.pick([2, 3])
    avail = {a for a in g.sizes}
    cands = [a for a in sorted(avail) if g.sizes[a] == n]
    if not cands:
        a = sorted(avail)[0]
        g.sizes[a] = n
        cands = [a]
    kname = g.pick(cands)
    t = g.index_expr((n, ()), 2, avail)
    t = g.ensure_input(t, kname, n, (n, ()))
    return ("sub", t, ((kname, t),))


def gen_capture_probe(src, opts):
    """(binder over j of a lazy body)(k = value whose free input is named j): the value's j
    must not be captured, whether or not the body mentions j."""
    g = G(src, Opts(max_depth=2, max_names=3, reals=True))
    avail = set(g.sizes)
    names = g.perm(sorted(avail))
    j, kname = names[0], names[1]
    sj, sk = g.sizes[j], g.sizes[kname]
    rname = sorted(g.real_shapes)[0]
    rvar = ("var", rname, ("real", g.real_shapes[rname]))
    if g.real_shapes[rname] != ():
        rvar = ("unp", "sum", (None, False), rvar)
    scal = sorted(n_ for n_, sh in g.real_shapes.items() if sh == ())
    if len(scal) >= 2 and g.chance(0.3):
        # the same lazy binder nested in itself through a substitution, then only the outer copy is opened:
        # B(w = B(x = 'x2'))(x = value)
        p_, q_ = scal[0], scal[1]
        tj = ("ten", ((j, sj),), (), "real", g.real_data(sj), False)
        body = ("bin", "mul", ("bin", g.pick(["mul", "add"]), tj, ("var", p_, ("real", ()))), ("var", q_, ("real", ())))
        kind = g.pick(["red", "red", "indep", "lam", "integrate"])
        if kind == "red":
            B = ("red", g.pick(["add", "logaddexp", "max"]), body, ((j, sj),))
        elif kind == "lam":
            B = ("unp", "sum", (None, False), ("lam", j, sj, body))
        elif kind == "integrate":
            B = ("integrate", ("ten", ((j, sj),), (), "real", g.real_data(sj), False), body, ((j, sj),))
        else:
            # Independent over (j, p_): the new array-valued input is named like the diag variable or differently
            B = ("indep", body, g.pick([p_, "rr" + p_]), j, p_)
        binp = typeof(B)[0]
        pin = [n_ for n_ in (p_, "rr" + p_) if n_ in binp][0]
        pdom = binp[pin]
        inner = ("sub", B, ((pin, ("pyname", pin + "2")),))
        nested = ("sub", B, ((q_, inner),))
        n_el = g.numel(pdom[1])
        val = ("pynum", 0.5) if pdom[1] == () and g.chance(0.5) else ("ten", (), tuple(pdom[1]), "real", g.real_data(n_el), False)
        return ("sub", nested, ((pin, val),))
    mention_j = g.chance(0.5)
    tk = ("ten", ((kname, sk),) + (((j, sj),) if mention_j else ()), (), "real", g.real_data(sk * (sj if mention_j else 1)), False)
    body = ("bin", g.pick(["add", "mul"]), rvar, tk) if g.chance(0.8) else tk
    if g.chance(0.3):
        body = ("bin", "add", body, g.expr(("real", ()), 1, avail - {j}))
    binder = g.pick(["red", "red", "lam", "integrate"])
    if binder == "red":
        op_ = g.pick(["add", "logaddexp", "max", "mul"])
        others_ = [n_ for n_ in names[2:] if n_ not in (j, kname)]
        if others_ and g.chance(0.6):
            # two reductions in two steps (normalize fuses them into one Contraction whose bound names are renamed at
            # different times); the body mentions both reduced names
            i2 = others_[0]
            t2 = ("ten", ((i2, g.sizes[i2]), (j, sj)), (), "real", g.real_data(g.sizes[i2] * sj), False)
            body2 = ("bin", "mul" if op_ != "mul" else "add", body, t2)
            bound = ("red", op_, ("red", op_, body2, ((i2, g.sizes[i2]),)), ((j, sj),))
        else:
            bound = ("red", op_, body, ((j, sj),))
    elif binder == "lam":
        bound = ("unp", "sum", (None, False), ("lam", j, sj, body))
    else:
        lm = ("ten", ((j, sj),), (), "real", g.real_data(sj), False)
        bound = ("integrate", lm, body, ((j, sj),))
    variant = g.rint((0, 3))
    rshape = g.real_shapes[rname]
    rn = g.numel(rshape)
    if variant == 0:
        # integer input k := index tensor whose free input is the bound name j
        subs = [(kname, ("ten", ((j, sj),), (), sk, g.int_data(sk, sj), False))]
    elif variant == 1:
        # integer input k := index tensor over k itself (the value mentions its own key)
        subs = [(kname, ("ten", ((kname, sk),), (), sk, g.int_data(sk, sk), False))]
    else:
        # real input := real tensor whose free input is the bound name j
        subs = [(rname, ("ten", ((j, sj),), rshape, "real", g.real_data(sj * rn), False))]
    if variant < 2 and g.chance(0.6):
        subs.append((rname, ("pynum", 0.5)) if rshape == () else (rname, ("ten", (), rshape, "real", g.real_data(rn), False)))
    if variant >= 2 and len(g.real_shapes) > 1 and g.chance(0.5):
        r2 = sorted(g.real_shapes)[1]
        v2 = ("var", r2, ("real", g.real_shapes[r2]))
        if g.real_shapes[r2] != ():
            v2 = ("unp", "sum", (None, False), v2)
        # body = x * y with neither mentioning j
        bound = ("red", g.pick(["add", "logaddexp"]), ("bin", "mul", rvar, v2), ((j, sj),))
    return ("sub", bound, tuple(subs))


def gen_integrate_probe(seed):
    """Integrate whose reduced variables are mentioned by only one of its two fields (measure / integrand), or by neither;
    names drawn from the small pool shared with the free inputs."""
    g = G(SeedSource(seed), Opts(max_names=3))
    names = g.perm(sorted(g.sizes))
    if len(names) < 2:
        return ("num", 0.5, "real")
    m_names = names[:1] + (names[2:3] if g.chance(0.3) else [])
    i_names = g.subset(names, 1, len(names))
    only_i = [n for n in i_names if n not in m_names]
    if not only_i and g.chance(0.8):
        extra = [n for n in names if n not in m_names]
        if extra:
            i_names = i_names + [g.pick(extra)]
            only_i = [n for n in i_names if n not in m_names]

    def ten(ns):
        ins = tuple((n, g.sizes[n]) for n in dict.fromkeys(ns))
        return ("ten", ins, (), "real", g.real_data(g.numel([s_ for _, s_ in ins])), False)

    lm = ten(g.perm(m_names))
    ig = ten(g.perm(i_names))
    if g.chance(0.3):
        ig = ("bin", g.pick(["mul", "add"]), ig, ten(g.subset(names, 1, 2)))
    r = g.rint((0, 3))
    if r == 0 and only_i:
        vs = [g.pick(only_i)]
    elif r == 1 and only_i:
        vs = [m_names[0], g.pick(only_i)]
    elif r == 2:
        vs = g.subset(names, 1, len(names))
    else:
        vs = [m_names[0]]
    inp = dict(typeof(lm)[0])
    inp.update(typeof(ig)[0])
    node = ("integrate", lm, ig, tuple((n, inp[n][0] if n in inp else g.sizes[n]) for n in dict.fromkeys(vs)))
    if g.chance(0.3):
        # used inside a larger term that re-uses the names freely
        node = ("bin", "add", node, ten(g.subset(names, 1, 2)))
    typeof(node)
    return node


def cases(opts):
    base = exprs(opts, None)
    probe = st.integers(0, 2**40).map(robust_gen(lambda s: gen_capture_probe(SeedSource(s), opts)))
    # one_of flattens nested one_ofs: _cases contributes four distinct branches (structured / seeded expressions, two
    # self-substitution generators), so three probe wrappers make up about 40 % of the cases
    # (repeated occurrences of one strategy object count once in st.one_of: distinct wrappers carry the weight)
    return st.one_of(_cases(opts), *[probe.map(lambda c, _i=i: c) for i in range(3)])


def _cases(opts):
    base = exprs(opts, None)

    @st.composite
    def _selfs(draw):
        return gen_self_subst(HypSource(draw), opts)

    seeded_self = st.integers(0, 2**40).map(robust_gen(lambda s: gen_self_subst(SeedSource(s), opts)))
    return st.one_of(base, base, base, seeded_self, seeded_self, _selfs())


class C05(Prop):
    id = "C05"
    rule = (
        "ASTs nesting binder constructors (Reduce, Lambda, Independent, Cat part_name, Integrate, Approximate, Subs keys; "
        "Contraction via normalize) with names drawn from a pool of 2-3 names shared by free and bound positions, built under "
        "eager/lazy/reflect/normalize and reinterpreted; checks: inputs == lexical free names for reflect-built terms (subset "
        "otherwise), no '__BOUND' input, values == oracle (lexically scoped), and invariance under renaming every binder to a "
        "fresh name; non-trivial = a name is bound at >=2 binders, or bound somewhere and free elsewhere in the same AST"
    )
    assumptions = (
        "oracle binds lexically (environment extension), so capture shows as a different value",
        "the MarkovProduct binder has its own family (names of the pairs and of time varied over one data set, capture by a later substitution); Scatter is exercised by the C11 engine",
    )
    cases = {"quick": 9000, "thorough": 100000}

    def strategy(self, tier):
        d = 3 if tier == "quick" else 4
        a = cases(Opts(max_depth=d, max_names=3, binders_extra=True))
        b = cases(Opts(max_depth=d, max_names=3, binders_extra=True, reals=True))
        pm = cases(Opts(max_depth=2, max_names=3, binders_extra=True, reals=True, deltas=True, consts=True))
        ib = cases(Opts(max_depth=2, max_names=3, binders_extra=True, integrate_weight=12))  # Integrate over variables one of its fields lacks
        ip = st.integers(0, 2**40).map(robust_gen(gen_integrate_probe))
        main = st.tuples(st.one_of(a, a, a, b, b, pm, ib, ip), st.sampled_from(MODES)).map(lambda t: {"ast": t[0], "mode": t[1]})
        # histories: a lazy binder, then N unrelated binders with their own names, then a substitution whose value has a
        # free input named like the binder and a second binder re-using the name (the fresh-name supply must never reissue a name)
        hist = st.tuples(st.sampled_from(["i", "j", "a"]), st.sampled_from(["i", "j", "b"]), st.sampled_from([0, 1, 7, 40, 130, 150, 260, 400]),
                         st.sampled_from(["eager-with-free-reals", "lazy"]), st.integers(0, 7)).map(
            lambda t: {"history": {"inner": t[0], "outer": t[1], "between": t[2], "style": t[3], "salt": t[4]}, "ast": ("num", 0.0, "real"), "mode": "eager"})
        # terms made by funsor.factory.make_funsor: two bound names and a fresh one that may re-use a bound name or collide
        # with a free input, built lazily (the argument depends on a free real variable) or under reflect
        fac = st.tuples(st.sampled_from(["a", "b"]), st.sampled_from(["ab", "a", "b", "c"]), st.sampled_from(["lazy-arg", "reflect", "lazy"]), st.integers(0, 5), st.booleans()).map(
            lambda t: {"factory": {"swap": t[0] == "b", "fresh": t[1], "style": t[2], "salt": t[3], "extra_input": t[4]}, "ast": ("num", 0.0, "real"), "mode": "eager"})
        # the Markov-product binder: the time variable and the dropped step names are bound; (prev, curr) names chosen freely
        mk = st.tuples(st.sampled_from(["add_mul", "logaddexp_add", "max_add"]), st.sampled_from([2, 2, 3, 4, 4]), st.permutations(["pa", "zb", "mc", "ad"]), st.sampled_from([1, 2, 2]),
                       st.booleans(), st.sampled_from(["lazy", "reflect", "eager", "lazy"]), st.sampled_from(["t", "time", "zb_t"]), st.integers(0, 9972), st.integers(1, 96),
                       st.sampled_from(["time-name", "time-name", "other-name", "prev-name"])).map(
            lambda t: {"markov": {"sem": t[0], "duration": t[1], "names": list(t[2]), "npairs": t[3], "dep_time": t[4], "style": t[5], "time": t[6], "a": t[7], "b": t[8], "capture": t[9]},
                       "ast": ("num", 0.0, "real"), "mode": "eager"})
        # the Scatter binder: index expressions that are bare reduced variables (diagonal embedding / pure renaming) or index
        # tensors over the reduced variable, built lazily or with a lazy source
        sc = st.tuples(st.sampled_from(["k", "n", "i", "zb"]), st.sampled_from(["diag", "diag", "rename", "index", "diag_index"]), st.sampled_from(["lazy", "reflect", "eager-lazy-source", "eager"]),
                       st.integers(0, 9972), st.booleans()).map(
            lambda t: {"scatter": {"binder": t[0], "shape": t[1], "style": t[2], "a": t[3], "batch": t[4]}, "ast": ("num", 0.0, "real"), "mode": "eager"})
        # (st.one_of drops repeated occurrences of one strategy object, so weights need distinct objects)
        mains = [main.map(lambda c, _i=i: c) for i in range(6)]
        return st.one_of(*mains, hist, fac, mk, sc)

    # open known finding: lazily built Approximate leaks mangled names
    known_predicates = {
        "approximate-leaks-mangled-name": lambda case, v: v.bucket.startswith("bound-name-leaked")
        and any(n[0] == "approx" for n in walk(case["ast"]))
        and case["mode"] != "eager",
    }

    def excluded(self, case):
        return case["mode"] != "eager" and any(n[0] == "approx" for n in walk(case["ast"]))

    def describe(self, case):
        if "history" in case:
            return f"[history] {case['history']}"
        if "factory" in case:
            return f"[factory] {case['factory']}"
        if "markov" in case:
            return f"[markov] {case['markov']}"
        if "scatter" in case:
            return f"[scatter] {case['scatter']}"
        return f"[{case['mode']}] {show(case['ast'])}"

    def signature(self, case):
        if "history" in case:
            return "history|" + case["history"]["style"]
        if "factory" in case:
            return "factory|" + case["factory"]["style"]
        if "markov" in case:
            return "markov|" + case["markov"]["style"]
        if "scatter" in case:
            return "scatter|" + case["scatter"]["style"]
        return ast_signature(case["ast"])

    def shrink_candidates(self, case):
        if "factory" in case or "markov" in case or "scatter" in case:
            return
        if "history" in case:
            h = case["history"]
            for n in (0, 1, 7, 40, 130, 150, 260):
                if n < h["between"]:
                    yield dict(case, history=dict(h, between=n))
            return
        if case["mode"] != "eager":
            yield dict(case, mode="eager")
        for c in ast_shrinks(case["ast"]):
            yield dict(case, ast=c)

    def check_history(self, h, stt):
        from collections import OrderedDict

        import funsor.interpretations as I
        from funsor import Bint, Real, Reals, Tensor, Variable, ops
        from funsor.interpreter import gensym, reinterpret

        stt.count("history")
        inner, outer, n, salt = h["inner"], h["outer"], h["between"], h["salt"]
        fv = np.array([1.0, 2.0, 3.0]) + salt
        hv = np.array([10.0, 20.0, 40.0]) - salt
        yv = np.array([1.0, 1.0, 2.0])
        zv = np.array([1.0, 3.0, 2.0])
        keep = []
        x, y, z = Variable("x", Real), Variable("y", Reals[3]), Variable("z", Reals[3])
        f = Tensor(fv, OrderedDict([(inner, Bint[3])]))
        g = Tensor(hv, OrderedDict([(outer, Bint[3])]))

        def between():
            with I.lazy:
                for k in range(n):
                    name = f"plate_{salt}_{k}"
                    keep.append(Tensor(np.ones(2), OrderedDict([(name, Bint[2])])).reduce(ops.add, name))

        try:
            if h["style"] == "lazy":
                with I.lazy:
                    A = (f * x).reduce(ops.add, inner)
                between()
                with I.lazy:
                    C = A(x=g).reduce(ops.add, outer)
                got = reinterpret(C)
                want = fv.sum() * hv.sum()
            else:
                A = (f * z[Variable(inner, Bint[3])] * x).reduce(ops.add, inner)
                between()
                B = A(x=g * y[Variable(outer, Bint[3])])
                C = B.reduce(ops.add, outer)
                if set(C.inputs) != {"y", "z"}:
                    raise Violation("history:inputs", f"inputs {sorted(C.inputs)} after reducing {outer!r}: {h}")
                got = C(y=Tensor(yv), z=Tensor(zv))
                want = (fv * zv).sum() * (hv * yv).sum()
        except Violation:
            raise
        except Exception as e:
            raise Decline("history-raised:" + innermost_funsor_frame(e))
        if got.inputs or not close(np.asarray(got.data), want):
            raise Violation("history:captured", f"sum_{outer} (sum_{inner} f z x)(x = h y[{outer}]) after {n} unrelated binders: {getattr(got, 'data', got)} expected {want}: {h}")
        # the supply itself: names for one prefix, interleaved with many other prefixes, are never reissued
        seen = set()
        for r in range(3):
            for k in range(max(n, 1)):
                for pre in (f"q{salt}_{k}__BOUND", inner + "__BOUND"):
                    name = gensym(pre)
                    if name in seen:
                        raise Violation("history:fresh-name-reissued", f"gensym({pre!r}) returned {name!r} twice: {h}")
                    seen.add(name)
        if n >= 130:
            stt.mark_nontrivial(case_hash(h))

    _factory = {}

    def check_factory(self, f, stt):
        from collections import OrderedDict

        import funsor.interpretations as I
        from funsor import Bint, Number, Real, Tensor, Variable
        from funsor.factory import Bound, Fresh, make_funsor
        from funsor.interpreter import reinterpret
        from funsor.terms import Funsor, to_funsor

        stt.count("factory:" + f["style"])
        if "Flatten21" not in self._factory:
            @make_funsor
            def Flatten21(x: Funsor, i: Bound, j: Bound, ij: Fresh[lambda i, j: Bint[i.size * j.size]]) -> Fresh[lambda x: x]:  # noqa: F821
                if not isinstance(x, Tensor):
                    return None  # stays a lazy term until its argument is a Tensor
                m = to_funsor(i, x.inputs.get(i, None)).output.size
                n = to_funsor(j, x.inputs.get(j, None)).output.size
                ij = x.materialize(to_funsor(ij, Bint[m * n]))
                return x(**{i.name: ij // Number(n, n + 1), j.name: ij % Number(n, n + 1)})

            self._factory["Flatten21"] = Flatten21
        Flatten21 = self._factory["Flatten21"]
        i, j = ("b", "a") if f["swap"] else ("a", "b")
        sizes = {"a": 3, "b": 2, "c": 2}
        ins = OrderedDict([("a", Bint[3]), ("b", Bint[2])] + ([("c", Bint[2])] if f["extra_input"] else []))
        shape = tuple(d.size for d in ins.values())
        data = (np.arange(int(np.prod(shape)), dtype=float).reshape(shape) * 0.5 + f["salt"])
        t = Tensor(data, ins)
        fresh = f["fresh"]
        if fresh == "c" and f["extra_input"]:
            raise Decline("fresh name collides with a free input (not a binder question)")
        # reference: flatten (i, j) row-major into `fresh`
        axes = list(ins)
        moved = np.moveaxis(data, [axes.index(i), axes.index(j)], [0, 1])
        want = moved.reshape((sizes[i] * sizes[j],) + moved.shape[2:])
        want_inputs = {fresh: sizes[i] * sizes[j]}
        if f["extra_input"]:
            want_inputs["c"] = 2
        label = f"Flatten21(x[{','.join(ins)}], {i!r}, {j!r}, {fresh!r}) [{f['style']}]"
        try:
            if f["style"] == "lazy-arg":
                term = Flatten21(t + Variable("x", Real), i, j, fresh)
                want_declared = dict(want_inputs, x="real")
            else:
                with getattr(I, f["style"]):
                    term = Flatten21(t, i, j, fresh)
                want_declared = dict(want_inputs)
        except Exception as e:
            raise Decline("factory-construction-raised:" + innermost_funsor_frame(e))
        got_declared = {k: ("real" if d.dtype == "real" else d.size) for k, d in term.inputs.items()}
        if got_declared != want_declared:
            raise Violation("factory:inputs", f"{label} declares inputs {got_declared}, expected {want_declared}")
        try:
            r = term(x=0.0) if f["style"] == "lazy-arg" else reinterpret(term)
        except Exception as e:
            raise Decline("factory-evaluation-raised:" + innermost_funsor_frame(e))
        if not isinstance(r, Tensor) or {k: d.size for k, d in r.inputs.items()} != want_inputs:
            raise Violation("factory:result-inputs", f"evaluated inputs {dict(getattr(r, 'inputs', {}))}, expected {want_inputs}: Flatten21(.., {i!r}, {j!r}, {fresh!r}) [{f['style']}]")
        got = r.align(tuple([fresh] + (["c"] if f["extra_input"] else []))).data
        if not close(got, want):
            raise Violation("factory:value", f"Flatten21(.., {i!r}, {j!r}, {fresh!r}) [{f['style']}]: {np.asarray(got).tolist()} expected {want.tolist()}")
        if fresh in (i, j):
            stt.mark_nontrivial(case_hash(f))

    def check_scatter(self, sc, stt):
        """Scatter binds its reduced variables.  destin[i, j, ...] = sum_k [i == e1(k)] [j == e2(k)] source[k, ...] whatever the
        binder is called, with no binder among the inputs, also when an index expression is the bare reduced variable."""
        import itertools
        from collections import OrderedDict

        import funsor.interpretations as I
        from funsor import Bint, Real, Tensor, Variable, ops
        from funsor.interpreter import reinterpret
        from funsor.terms import Scatter
        from vf.build import eval_at

        kname, shape, style = sc["binder"], sc["shape"], sc["style"]
        n = 3
        stt.count("scatter:" + shape + ":" + style)
        k = Variable(kname, Bint[n])
        src_inputs = OrderedDict([(kname, Bint[n])])
        if sc["batch"]:
            src_inputs["u"] = Bint[2]
        data = 0.25 * (1 + (np.arange(n * (2 if sc["batch"] else 1)) * 5 + sc["a"]) % 8).reshape((n, 2) if sc["batch"] else (n,))
        perm = [(sc["a"] + 1 + j) % n for j in range(n)] if sc["a"] % 2 else [n - 1 - j for j in range(n)]
        idx = Tensor(np.asarray(perm, dtype=np.int64), OrderedDict([(kname, Bint[n])]), n)
        dests = {"diag": [("di", k), ("dj", k)], "rename": [("di", k)], "index": [("di", idx)], "diag_index": [("di", k), ("dj", idx)]}[shape]
        fmap = {"diag": [lambda v: v, lambda v: v], "rename": [lambda v: v], "index": [lambda v: perm[v]], "diag_index": [lambda v: v, lambda v: perm[v]]}[shape]

        def run():
            source = Tensor(data, src_inputs)
            if style == "eager-lazy-source":
                source = source * Variable("w", Real)
            return Scatter(ops.add, tuple(dests), source, frozenset({k}))

        try:
            if style in ("lazy", "reflect"):
                with getattr(I, style):
                    t = run()
            else:
                t = run()
        except Exception as e:
            raise Decline("scatter-build-raised:" + innermost_funsor_frame(e))
        expected = {d for d, e_ in dests} | ({"u"} if sc["batch"] else set()) | ({"w"} if style == "eager-lazy-source" else set())
        if any("__BOUND" in n_ for n_ in t.inputs) or not set(t.inputs) <= expected or (style != "eager" and set(t.inputs) != expected):
            raise Violation("scatter-inputs", f"Scatter inputs {list(t.inputs)} expected {sorted(expected)}: {sc}")
        try:
            r = reinterpret(t) if style in ("lazy", "reflect") else t
            if style == "eager-lazy-source":
                r = r(w=Tensor(np.asarray(1.5)))
        except Exception as e:
            raise Decline("scatter-evaluate-raised:" + innermost_funsor_frame(e))
        scale = 1.5 if style == "eager-lazy-source" else 1.0
        names = [d for d, e_ in dests] + (["u"] if sc["batch"] else [])
        for pidx in itertools.product(*[range(n) for _ in dests], *([range(2)] if sc["batch"] else [])):
            pt = dict(zip(names, pidx))
            want = 0.0
            for v in range(n):
                if all(f_(v) == pt[d] for f_, (d, e_) in zip(fmap, dests)):
                    want += scale * float(data[(v, pt["u"])] if sc["batch"] else data[v])
            try:
                got = eval_at(r, {k_: v_ for k_, v_ in pt.items() if k_ in r.inputs})
            except Decline:
                raise
            except Exception as e:
                raise Decline("scatter-binding-raised:" + innermost_funsor_frame(e))
            if not close(got, want):
                raise Violation("scatter-value", f"at {pt}: {np.asarray(got).tolist()} expected {want} (binder {kname}): {sc}")
        stt.count("completed")
        stt.mark_nontrivial(case_hash({"scatter": sc}))

    def check_markov(self, mk, stt):
        """MarkovProduct binds the time variable and the step names it drops.  The value must not depend on which names the
        caller picks for the (prev, curr) pairs or for time, and a value substituted later for a free batch input may
        mention a variable named like the bound time variable (or like a step name) without being captured."""
        import itertools
        from collections import OrderedDict

        import funsor.interpretations as I
        from funsor import Bint, Tensor
        from funsor.interpreter import reinterpret
        from funsor.sum_product import MarkovProduct
        from vf.build import eval_at
        from vf.props.c10 import build_markov, funsor_ops, oracle_fold

        names, k = mk["names"], mk["npairs"]
        dur = mk["duration"]
        stt.count("markov:" + mk["style"])
        # two assignments of names to the same data: as drawn, and with the prev names in the opposite order of the curr names
        assignments = [[(names[2 * i], names[2 * i + 1], 2) for i in range(k)]]
        srt = sorted(names[: 2 * k])
        assignments.append([(srt[i], srt[2 * k - 1 - i], 2) for i in range(k)])
        for ai, pairs in enumerate(assignments):
            c10case = dict(kind="markov", sem=mk["sem"], duration=dur, pairs=pairs, batch=[("u", 3)], dep_time=mk["dep_time"], dep_batch=True,
                           real=False, a=mk["a"], b=mk["b"], time=mk["time"] if ai == 0 else "s")
            trans, time, step, full = build_markov(c10case)
            S, P = funsor_ops(mk["sem"])
            want = oracle_fold(c10case, full, None)
            try:
                if mk["style"] == "eager":
                    m = MarkovProduct(S, P, trans, time, step)
                else:
                    with getattr(I, mk["style"]):
                        m = MarkovProduct(S, P, trans, time, step)
            except Exception as e:
                raise Decline("markov-build-raised:" + innermost_funsor_frame(e))
            expected = {"u"} | {p[0] for p in pairs} | {p[1] for p in pairs}
            if any("__BOUND" in n_ for n_ in m.inputs) or time.name in m.inputs or not set(m.inputs) <= expected:
                raise Violation("markov-inputs", f"MarkovProduct inputs {list(m.inputs)} expected {sorted(expected)}: {mk}")
            if mk["style"] != "eager" and set(m.inputs) != expected:
                raise Violation("markov-inputs", f"lazy MarkovProduct inputs {list(m.inputs)} expected {sorted(expected)}: {mk}")
            try:
                r = reinterpret(m) if mk["style"] != "eager" else m
            except Exception as e:
                raise Decline("markov-reinterpret-raised:" + innermost_funsor_frame(e))

            def compare(res, extra_name, idx_data, tag):
                # res[..., extra_name=j] must be the fold with the batch input u = idx_data[j]
                free = ([extra_name] if extra_name else ["u"])
                ranges = [range(len(idx_data))] if extra_name else [range(3)]
                for j, *rest in itertools.product(*(ranges + [range(2)] * (2 * k))):
                    pt = {free[0]: j}
                    for (pn, cn, s_), i_ in zip(pairs, rest[:k]):
                        pt[pn] = i_
                    for (pn, cn, s_), i_ in zip(pairs, rest[k:]):
                        pt[cn] = i_
                    u = idx_data[j] if extra_name else j
                    w = want[(u,) + tuple(rest)]
                    if extra_name is not None and extra_name in pt and extra_name != free[0]:
                        continue
                    try:
                        got = eval_at(res, pt)
                    except Decline:
                        raise
                    except Exception as e:
                        raise Decline("markov-binding-raised:" + innermost_funsor_frame(e))
                    if not close(got, w):
                        raise Violation("markov-" + tag, f"at {pt}: {np.asarray(got).tolist()} explicit fold {float(w)} (names {pairs}, time {time.name}): {mk}")

            compare(r, None, None, "value-depends-on-names" if ai else "value")
            # a later substitution for the free batch input whose value mentions a variable named like a bound one
            cap = {"time-name": time.name, "other-name": "zz_free", "prev-name": pairs[0][0]}[mk["capture"]]
            if cap in expected:
                stt.count("markov:capture-name-is-free-in-the-product(skipped)")
                continue
            size = dur if mk["capture"] != "prev-name" else 2
            idx_data = [(mk["a"] + 2 * j) % 3 for j in range(size)]
            idx = Tensor(np.asarray(idx_data, dtype=np.int64), OrderedDict([(cap, Bint[size])]), 3)
            for where in ("outside", "inside"):
                try:
                    if where == "outside" or mk["style"] == "eager":
                        r2 = m(u=idx)
                    else:
                        with getattr(I, mk["style"]):
                            r2 = m(u=idx)
                    want_in = (expected - {"u"}) | {cap}
                    if any("__BOUND" in n_ for n_ in r2.inputs) or not set(r2.inputs) <= want_in or (cap not in r2.inputs):
                        raise Violation("markov-capture", f"after u={cap}-indexed value: inputs {list(r2.inputs)} expected {sorted(want_in)}: {mk}")
                    r2 = reinterpret(r2)
                except Violation:
                    raise
                except Exception as e:
                    stt.decline("markov-substitution-raised:" + innermost_funsor_frame(e))
                    continue
                compare(r2, cap, idx_data, "capture")
                stt.count("markov:substitution-compared")
        stt.count("completed")
        stt.mark_nontrivial(case_hash({"markov": mk}))

    def check(self, case, stt):
        import funsor.interpretations as I
        from funsor.interpreter import reinterpret
        from vf.build import build

        if "history" in case:
            return self.check_history(case["history"], stt)
        if "factory" in case:
            return self.check_factory(case["factory"], stt)
        if "markov" in case:
            return self.check_markov(case["markov"], stt)
        if "scatter" in case:
            return self.check_scatter(case["scatter"], stt)
        node, mode = case["ast"], case["mode"]
        free = set(typeof(node)[0])
        binders = binder_names(node)
        leaves = leaf_names(node)
        stt.count("mode:" + mode)
        for n in walk(node):
            if n[0] in ("red", "sub", "cat", "lam", "indep", "integrate", "approx"):
                stt.count("binder:" + n[0])
        nt = len(binders) != len(set(binders)) or bool(set(binders) & (free | (leaves - set(binders)))) or any(
            b in free for b in binders
        )

        import zlib

        # a substitution at the root is applied either inside the deferring context or afterwards, by the caller,
        # under the default interpretation (the term it is applied to is then an already normalised / lazy binder)
        late = mode != "eager" and node[0] == "sub" and zlib.crc32(show(node).encode()) % 3 != 0
        if late:
            stt.count("root-substitution-applied-after-the-context")

        def run(ast, tag):
            try:
                if late and ast[0] == "sub":
                    with getattr(I, mode):
                        inner = build(ast[1])
                    kw = {}
                    for k_, v_ in ast[2]:
                        kw[k_] = v_[1] if v_[0] in ("pynum", "pyname") else build(v_)
                    t = inner(**kw)
                else:
                    with getattr(I, mode):
                        t = build(ast)
            except Exception as e:
                raise Decline(f"build-raised:{innermost_funsor_frame(e)}")
            bad = [n for n in t.inputs if "__BOUND" in n]
            if bad:
                raise Violation("bound-name-leaked", f"{tag}: inputs {sorted(t.inputs)} contain mangled bound names: {show(ast)}")
            ins = set(t.inputs)
            want = set(typeof(ast)[0])
            # (a root substitution applied after the context runs under the default interpretation and may
            # legitimately drop names, e.g. by selecting one part of a Stack)
            if mode == "reflect" and not (late and ast[0] == "sub") and ins != want:
                raise Violation("lazy-inputs-differ-from-free-names", f"{tag}: inputs {sorted(ins)} but free names {sorted(want)}: {show(ast)}")
            if not ins <= want:
                raise Violation("extra-inputs", f"{tag}: inputs {sorted(ins)} not among free names {sorted(want)}: {show(ast)}")
            try:
                r = reinterpret(t) if mode != "eager" else t
            except Exception as e:
                raise Decline(f"reinterpret-raised:{innermost_funsor_frame(e)}")
            bad = [n for n in r.inputs if "__BOUND" in n]
            if bad:
                raise Violation("bound-name-leaked", f"{tag} (evaluated): inputs {sorted(r.inputs)}: {show(ast)}")
            evaluate_against_oracle(ast, r, stt, tag)
            return ins

        ins1 = run(node, "original")
        renamed = rename_binders(node)
        if set(typeof(renamed)[0]) != free:
            from vf.core import HarnessError

            raise HarnessError("rename_binders changed the free names")
        try:
            ins2 = run(renamed, "binders-renamed")
        except Decline as d:
            raise Decline("renamed:" + d.bucket)
        if mode == "reflect" and ins1 != ins2:
            raise Violation("renaming-changes-inputs", f"{sorted(ins1)} vs {sorted(ins2)}: {show(node)}")
        stt.count("completed")
        if nt:
            stt.mark_nontrivial(case_hash(node))


PROP = C05()
