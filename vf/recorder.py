"""Run-time recorder of rewrite-rule firings and dispatch decisions (C02, C16, C20).

No repository change: `DispatchedInterpretation.interpret` looks `self.dispatch` up on
every call and `PrioritizedInterpretation.dispatch` forwards to the same attribute, so the
recorder replaces that *instance attribute* with a wrapper and removes it afterwards."""
import contextlib


def dispatched_interpretations():
    import funsor.adjoint  # noqa: F401
    import funsor.approximations  # noqa: F401
    import funsor.constant  # noqa: F401
    import funsor.integrate  # noqa: F401
    import funsor.joint  # noqa: F401
    import funsor.sum_product  # noqa: F401
    from funsor.interpretations import (
        compress_gaussians_base, eager_base, lazy_base, moment_matching_base, normalize_base, sequential_base,
    )
    from funsor.optimizer import optimize_base, unfold_base

    unfold_base.__name__ = "unfold"
    optimize_base.__name__ = "optimize"
    return [eager_base, normalize_base, lazy_base, sequential_base, moment_matching_base, compress_gaussians_base, unfold_base, optimize_base]


class Recorder:
    def __init__(self, limit=400):
        self.firings = []  # (interp name, rule fn, cls, args, result)
        self.dispatches = []  # (interp name, cls, arg types, fn)
        self.active = False
        self.limit = limit
        self._saved = []

    @contextlib.contextmanager
    def recording(self):
        interps = dispatched_interpretations()
        for interp in interps:
            orig = interp.dispatch
            self._saved.append((interp, orig))
            interp.dispatch = self._wrap(interp, orig)
        self.active = True
        try:
            yield self
        finally:
            self.active = False
            for interp, orig in self._saved:
                interp.dispatch = orig
            self._saved = []

    def _wrap(self, interp, orig):
        rec = self

        def dispatch(cls, *args):
            fn = orig(cls, *args)
            if not rec.active or len(rec.firings) >= rec.limit:
                return fn

            def rule(*a):
                r = fn(*a)
                if r is not None and rec.active and len(rec.firings) < rec.limit:
                    rec.firings.append((interp.__name__, fn, cls, a, r))
                return r

            return rule

        return dispatch


def rule_name(fn):
    f = getattr(fn, "default", fn)
    mod = getattr(f, "__module__", "?")
    return f"{mod.split('.')[-1]}.{getattr(f, '__name__', repr(f))}"


def registered_rules():
    """Names of all rule functions registered in the dispatched interpretations."""
    out = set()
    for interp in dispatched_interpretations():
        for key, disp in interp.registry.registry.items():
            for sig, fn in disp.funcs.items():
                if getattr(fn, "default", None) is None and not type(fn).__name__ == "PartialDefault":
                    out.add(rule_name(fn))
    return out
